"""Shared machinery: build (tables, Coq, runner), model runner, differential loop, shrinking,
known findings, replay and evidence files."""
import fcntl
import hashlib
import json
import os
import random
import re
import signal
import subprocess
import sys
import time
import traceback
from concurrent.futures import ProcessPoolExecutor
from contextlib import contextmanager
from pathlib import Path

import wire

VERIF = Path(os.environ.get("VERIF_ROOT", "/verif"))
REPO = Path(os.environ.get("VERIF_REPO", "/repo"))
WORK = VERIF / ".work"
BUILD = VERIF / ".build"
COQFLAGS = ["-Q", "theories", "PV", "-Q", "gen", "PVGen"]
FORBIDDEN = re.compile(
    r"\b(Admitted|admit|Admit\s+Obligations|bypass_check|native_compute)\b"
    r"|(^|\.\s+)\s*(Local\s+|Global\s+|Polymorphic\s+)?(Axiom|Axioms|Parameter|Parameters|Conjecture|Conjectures)\s"
    r"|Unset\s+Guard|Unset\s+Positivity|Unset\s+Universe|type-in-type|impredicative-set"
)
TRUSTED_BASE = [
    "Coq 8.16.1 kernel (coqc full .vo build, vm_compute for finite tables and witnesses; no native_compute)",
    "axioms: none declared; Print Assumptions of every property theorem is recorded under 'axioms'",
    "harness/gen_tables.py (fail-closed translator of data tables from the live /repo modules)",
    "extraction: ExtrOcamlBasic only (no Extract Constant / other Extract Inductive), N/Z/positive stay Coq datatypes",
    "runner/driver.ml (byte I/O + int<->N conversion), cross-checked each run by Eval vm_compute on sampled cases; the wire format is "
    "proved lossless (Base/WireFacts.v: decode (enc v) = Some v) and the stack-safe encoder equal to enc (Base/WireFast.v)",
    "correspondence harness (generators, adapters calling pycfmodel's public API, canonicalisation, shrinker)",
    "CPython 3.12.1, pydantic 2.7.3, ipaddress/json/re/base64/unicodedata (leaf oracles, see DESIGN.md section 5)",
]


def sh(cmd, timeout=600, cwd=VERIF, env=None):
    p = subprocess.run(cmd, cwd=cwd, capture_output=True, text=True, timeout=timeout, env=env)
    return p.returncode, p.stdout + p.stderr


@contextmanager
def build_lock():
    BUILD.mkdir(exist_ok=True)
    with open(BUILD / "lock", "w") as f:
        fcntl.flock(f, fcntl.LOCK_EX)
        try:
            yield
        finally:
            fcntl.flock(f, fcntl.LOCK_UN)


def write_if_changed(path: Path, text: str):
    path.parent.mkdir(parents=True, exist_ok=True)
    if path.exists() and path.read_text() == text:
        return False
    tmp = path.with_suffix(path.suffix + ".tmp")
    tmp.write_text(text)
    tmp.replace(path)
    return True


def ensure_makefile():
    """_CoqProject lists every .v under theories/ and gen/ (regenerated when the set of files changes)."""
    files = sorted(str(p.relative_to(VERIF)) for root in ("theories", "gen") for p in (VERIF / root).rglob("*.v"))
    text = "-Q theories PV\n-Q gen PVGen\n" + "\n".join(files) + "\n"
    changed = write_if_changed(VERIF / "_CoqProject", text)
    mk = VERIF / "Makefile.coq"
    if changed or not mk.exists():
        rc, out = sh(["coq_makefile", "-f", "_CoqProject", "-o", "Makefile.coq"])
        if rc != 0:
            raise RuntimeError("coq_makefile failed:\n" + out)


def make(targets, timeout=1500, jobs=16):
    """Full .vo build of the targets' dependency cone.  Returns (ok, output)."""
    ensure_makefile()
    rc, out = sh(["timeout", str(timeout), "make", "-f", "Makefile.coq", f"-j{jobs}"] + list(targets), timeout=timeout + 30)
    return rc == 0, out


def enclosing_theorem(path: Path, line: int):
    name = None
    try:
        for i, l in enumerate(path.read_text().splitlines(), 1):
            m = re.match(r"\s*(?:Local\s+|Global\s+)?(Theorem|Lemma|Example|Corollary|Definition|Fixpoint|Fact)\s+([\w']+)", l)
            if m:
                name = m.group(2)
            if i >= line:
                break
    except OSError:
        pass
    return name


def parse_make_error(out):
    m = re.search(r'File "\./([^"]+)", line (\d+), characters [\d-]+:\s*\n\s*Error:?(.*?)(?:\n\n|\nmake|\Z)', out, re.S)
    if not m:
        return {"file": None, "theorem": None, "message": out[-2000:]}
    f, line, msg = m.group(1), int(m.group(2)), m.group(3).strip()
    return {"file": f, "line": line, "theorem": enclosing_theorem(VERIF / f, line), "message": msg[:1500]}


def grep_gate():
    bad = []
    for root in ("theories", "gen", "extraction"):
        for p in sorted((VERIF / root).rglob("*.v")):
            text = re.sub(r"\(\*.*?\*\)", "", p.read_text(), flags=re.S)
            for i, l in enumerate(text.splitlines(), 1):
                if FORBIDDEN.search(l):
                    bad.append(f"{p.relative_to(VERIF)}:{i}: {l.strip()[:120]}")
    return bad


def compile_properties(pid):
    """Always re-run coqc on Properties/<pid>.v to get its Print Assumptions output."""
    path = f"theories/Properties/{pid}.v"
    src = (VERIF / path).read_text()
    theorems = re.findall(r"^\s*(?:Theorem|Example)\s+([\w']+)", src, re.M)
    rc, out = sh(["timeout", "600", "coqc"] + COQFLAGS + [path], timeout=630)
    info = {"file": path, "theorems": theorems, "ok": rc == 0, "axioms": {}, "closed": 0}
    if rc != 0:
        info["error"] = parse_make_error(out.replace(f'File "{path}"', f'File "./{path}"').replace('File "./', 'File "./'))
        return info
    # Print Assumptions blocks, in order of appearance
    names = re.findall(r"^\s*Print Assumptions\s+([\w'.]+)\s*\.", src, re.M)
    blocks = re.split(r"(?=Closed under the global context|Axioms:)", out)
    blocks = [b for b in blocks if b.startswith(("Closed under", "Axioms:"))]
    for n, b in zip(names, blocks):
        if b.startswith("Closed under"):
            info["closed"] += 1
            info["axioms"][n] = []
        else:
            ax = re.findall(r"^([\w'.]+)\s*:", b, re.M)
            info["axioms"][n] = ax
    info["n_print_assumptions"] = len(blocks)
    return info


def build_runner():
    """Extract Runner.step and compile the OCaml driver (rebuilt only when the extracted code changes)."""
    BUILD.mkdir(exist_ok=True)
    rc, out = sh(["timeout", "300", "coqc", "-Q", "../theories", "PV", "-Q", "../gen", "PVGen", "../extraction/Extract.v"], cwd=BUILD, timeout=330)
    if rc == 124:
        # the time limit, not an error of the extraction: a loaded machine (seen once, with three other builds running) -- once more, patiently
        rc, out = sh(["timeout", "1500", "coqc", "-Q", "../theories", "PV", "-Q", "../gen", "PVGen", "../extraction/Extract.v"], cwd=BUILD, timeout=1530)
    if rc != 0:
        raise RuntimeError(f"extraction failed (exit status {rc}):\n" + out)
    drv = (VERIF / "runner/driver.ml").read_text()
    h = hashlib.sha256(((BUILD / "runner_core.ml").read_text() + drv).encode()).hexdigest()
    stamp = BUILD / "runner.sha"
    if (BUILD / "runner").exists() and stamp.exists() and stamp.read_text() == h:
        return
    (BUILD / "driver.ml").write_text(drv)
    rc, out = sh(["timeout", "300", "ocamlfind", "ocamlopt", "-O2", "-w", "-a", "runner_core.mli", "runner_core.ml",
                  "driver.ml", "-o", "runner"], cwd=BUILD, timeout=330)
    if rc == 124:
        rc, out = sh(["timeout", "1500", "ocamlfind", "ocamlopt", "-O2", "-w", "-a", "runner_core.mli", "runner_core.ml",
                      "driver.ml", "-o", "runner"], cwd=BUILD, timeout=1530)
    if rc != 0:
        raise RuntimeError("runner build failed:\n" + out)
    stamp.write_text(h)


class ModelError(Exception):
    pass


RUNNER_ANSWER_S = 600


class Runner:
    """Line-oriented conversation with the extracted model."""

    def __init__(self, keep_samples=0, rng=None):
        def big_stack():
            import resource
            soft, hard = resource.getrlimit(resource.RLIMIT_STACK)
            want = 1 << 30
            if hard != resource.RLIM_INFINITY:
                want = min(want, hard)
            if soft != resource.RLIM_INFINITY and soft < want:
                resource.setrlimit(resource.RLIMIT_STACK, (want, hard))
        self.p = subprocess.Popen([str(BUILD / "runner")], stdin=subprocess.PIPE, stdout=subprocess.PIPE, bufsize=1 << 20,
                                  preexec_fn=big_stack)
        self.calls = 0
        self.keep = keep_samples
        self.samples = []
        self.rng = rng or random.Random(0)

    def call(self, op, arg, sample=True):
        toks = [op] + wire.enc(arg)
        self.p.stdin.write((" ".join(map(str, toks)) + "\n").encode())
        self.p.stdin.flush()
        # the model answers in milliseconds; a model that computes for minutes is a defect of the MODEL (e.g. an exponential
        # definition) and must surface as an error of the harness, never as a check that hangs
        import select
        ready, _, _ = select.select([self.p.stdout], [], [], RUNNER_ANSWER_S)
        if not ready and not self.p.stdout.peek(1):
            self.p.kill()
            raise ModelError(f"the extracted model did not answer op {op} within {RUNNER_ANSWER_S} s")
        line = self.p.stdout.readline()
        if not line:
            raise ModelError("runner died")
        out, _ = wire.dec([int(x) for x in line.split()])
        if out == "BAD":
            raise ModelError(f"runner rejected op {op} arg {arg!r}")
        self.calls += 1
        if sample and self.keep:
            if len(self.samples) < self.keep:
                self.samples.append((op, arg, out))
            else:
                j = self.rng.randrange(self.calls)
                if j < self.keep:
                    self.samples[j] = (op, arg, out)
        return out

    def close(self):
        try:
            self.p.stdin.close()
            self.p.wait(timeout=5)
        except Exception:
            self.p.kill()


class Timeout(Exception):
    pass


@contextmanager
def time_limit(seconds, cpu=False):
    """cpu=True: the limit is on the CPU time of this process (ITIMER_VIRTUAL), so that a loaded machine does not turn a slow
    but finite computation into a timeout; a hang of the code under test burns CPU and is caught all the same."""
    def handler(signum, frame):
        raise Timeout()
    sig, timer = (signal.SIGVTALRM, signal.ITIMER_VIRTUAL) if cpu else (signal.SIGALRM, signal.ITIMER_REAL)
    old = signal.signal(sig, handler)
    # re-armed every 0.2 s after the limit: code under test may swallow the first Timeout (pydantic turns an exception raised
    # while it iterates its input into a validation error of that union member and goes on with the next member)
    signal.setitimer(timer, seconds, 0.2)
    try:
        yield
    finally:
        signal.setitimer(timer, 0)
        signal.signal(sig, old)


EXC_KIND = {
    "ValidationError": "EValidation", "ValueError": "EValue", "TypeError": "EType", "AttributeError": "EAttr",
    "IndexError": "EIndex", "KeyError": "EKey", "RecursionError": "ERecursion", "Timeout": "TIMEOUT",
    "error": "EValue",  # re.error
}
ERR_CODES = {1: "EValue", 2: "EType", 3: "EAttr", 4: "EIndex", 5: "EKey", 6: "EValidation", 7: "ERecursion", 8: "EUndefined"}


class HelperGone(Exception):
    """a module-private helper of the library (a name with a leading underscore that a surface calls directly) is no longer there:
    renamed, inlined or moved by a refactoring.  Nothing a user relies on; the surface that needs it runs no comparison (counted as
    outside the model's domain, named in the evidence) and the public entry points keep covering the behaviour."""


def helper(path):
    """'package.module:attr.sub' -> the object, or HelperGone"""
    import importlib
    mod, _, attrs = path.partition(":")
    try:
        obj = importlib.import_module(mod)
        for a in attrs.split("."):
            obj = getattr(obj, a)
        return obj
    except Exception:   # noqa
        raise HelperGone(path)


def impl_call(fn, *a, limit=20.0, cpu=False, **kw):
    """Run the implementation; exceptions become ('EXC', kind, class name)."""
    try:
        with time_limit(limit, cpu=cpu):
            return ("OK", fn(*a, **kw))
    except Timeout:
        return ("EXC", "TIMEOUT", "Timeout")
    except RecursionError:
        return ("EXC", "ERecursion", "RecursionError")
    except Exception as e:  # noqa
        n = type(e).__name__
        return ("EXC", EXC_KIND.get(n, "EOther:" + n), n)


def model_res(v):
    """Decode the runner's encoding of `res value`."""
    if isinstance(v, list) and len(v) == 2 and v[0] == 0:
        return ("OK", v[1])
    if isinstance(v, list) and len(v) == 2 and v[0] == 1:
        return ("EXC", ERR_CODES[v[1]], "")
    raise ModelError(f"not a res: {v!r}")


def canon(v):
    """Canonical form for comparison: dict keys sorted (Python == on dicts ignores order)."""
    if isinstance(v, dict):
        return {k: canon(v[k]) for k in sorted(v)}
    if isinstance(v, (list, tuple)):
        return [canon(x) for x in v]
    return v


def strict_key(v):
    """type-aware comparison key: Python's == conflates True / 1 / 1.0, the properties do not"""
    return json.dumps(wire.jsonable(canon(v)), sort_keys=True, default=str)


def stable_hash(x):
    return hashlib.blake2b(json.dumps(wire.jsonable(x), sort_keys=True, default=str).encode(), digest_size=8).hexdigest()


# ---------------------------------------------------------------------------------------------
# generic structural shrinker over JSON-like inputs

def shrink_candidates(x):
    if isinstance(x, list):
        for i in range(len(x)):
            yield x[:i] + x[i + 1:]
        for i in range(len(x)):
            for c in shrink_candidates(x[i]):
                yield x[:i] + [c] + x[i + 1:]
    elif isinstance(x, tuple):
        for i in range(len(x)):
            for c in shrink_candidates(x[i]):
                yield x[:i] + (c,) + x[i + 1:]
    elif isinstance(x, dict):
        ks = list(x)
        for k in ks:
            yield {kk: x[kk] for kk in ks if kk != k}
        for k in ks:
            for c in shrink_candidates(x[k]):
                y = dict(x)
                y[k] = c
                yield y
    elif isinstance(x, str):
        if len(x) > 0:
            for i in range(len(x)):
                yield x[:i] + x[i + 1:]
    elif isinstance(x, bool) or x is None:
        return
    elif isinstance(x, int):
        if x != 0:
            yield 0
            yield x // 2


def top_candidates(x, frozen):
    """Top-level case records keep their keys; frozen keys keep their values."""
    if isinstance(x, dict) and frozen is not None:
        for k in x:
            if k in frozen:
                continue
            for c in shrink_candidates(x[k]):
                y = dict(x)
                y[k] = c
                yield y
    else:
        yield from shrink_candidates(x)


SHRINK_WALL_S = 45.0


def shrink(x, still_fails, budget=400, frozen=None, wall_s=None):
    """greedy structural shrinking, bounded in steps AND in wall time: a failing case whose every evaluation is slow (a change
    that makes the pipeline crawl) must cost the check a minute, not hours -- the unshrunk input is a perfectly good replay"""
    steps = 0
    improved = True
    t_end = time.time() + (SHRINK_WALL_S if wall_s is None else wall_s)
    while improved and steps < budget and time.time() < t_end:
        improved = False
        for c in top_candidates(x, frozen):
            steps += 1
            if steps > budget or time.time() > t_end:
                break
            try:
                if still_fails(c):
                    x = c
                    improved = True
                    break
            except Exception:
                continue
    return x


# ---------------------------------------------------------------------------------------------

class Surface:
    """One public-API surface compared with one model function."""
    name = "?"
    theorem = "?"          # theorem(s) of Properties/<id>.v that the model side is proved against
    shrinkable = True
    frozen = frozenset()   # keys of the case record whose values the shrinker must not touch

    def impl(self, x):      # -> ("OK", value) | ("EXC", kind, cls)
        raise NotImplementedError

    def model(self, rn, x):  # -> ("OK", value) | ("EXC", kind, "") ; kind EUndefined = outside the domain
        raise NotImplementedError

    def agree(self, x, i, m):
        if i[0] != m[0]:
            return False
        if i[0] == "EXC":
            return i[1] == m[1]
        return strict_key(i[1]) == strict_key(m[1])

    def tags(self, x):
        return set()

    def nontrivial(self, x, i, m):
        return True

    def describe(self, x):
        return wire.jsonable(x)


class Stats:
    def __init__(self):
        self.evaluations = 0
        self.undefined = 0
        self.nontrivial = set()
        self.dist = {}
        self.samples = []
        self.violations = []   # dicts
        self.known_seen = {}
        self.runner_samples = []
        self.by_surface = {}

    def bump(self, key, n=1):
        self.dist[key] = self.dist.get(key, 0) + n

    def merge(self, o):
        self.evaluations += o.evaluations
        self.undefined += o.undefined
        self.nontrivial |= o.nontrivial
        for k, v in o.dist.items():
            self.dist[k] = self.dist.get(k, 0) + v
        for k, v in o.by_surface.items():
            self.by_surface[k] = self.by_surface.get(k, 0) + v
        self.samples += o.samples
        for v in o.violations:
            if not any(w["sig"] == v["sig"] for w in self.violations):
                self.violations.append(v)
        for k, v in o.known_seen.items():
            self.known_seen[k] = self.known_seen.get(k, 0) + v
        self.runner_samples += o.runner_samples


def surface_rates(stats):
    """per correspondence surface: cases, and the share that was non-trivial / outside the model's domain / an implementation error"""
    out = {}
    for name, n in stats.by_surface.items():
        out[name] = {"cases": n}
        for k in ("nontrivial", "undefined", "impl_exc"):
            out[name][k] = round(stats.dist.get(f"surface_{k}:{name}", 0) / max(1, n), 4)
    return out


def coverage_loss_notes(pid, tier, rates):
    """ADVISORY: compare the per-surface rates with the ones recorded on the unchanged tree (harness/coverage_baseline.json, written by
    bin/mkcoveragebaseline from the quick evidence).  A surface whose non-trivial share collapses, or whose cases mostly leave the
    model's domain or mostly end in an implementation error, still 'agrees' -- but it no longer exercises the property; the reader of
    the evidence file should know (audit item D3).  Never a violation by itself."""
    try:
        base = json.loads((VERIF / "harness" / "coverage_baseline.json").read_text()).get(pid, {})
    except Exception:   # noqa
        return []
    notes = []
    for name, b in base.items():
        r = rates.get(name)
        if r is None:
            notes.append(f"coverage loss (advisory): surface {name!r} of the recorded baseline ran no case")
            continue
        if r["cases"] < 30:
            continue
        if b["nontrivial"] >= 0.1 and r["nontrivial"] < 0.5 * b["nontrivial"]:
            notes.append(f"coverage loss (advisory): surface {name!r}: non-trivial share {r['nontrivial']:.0%}, was {b['nontrivial']:.0%} on the unchanged tree")
        if r["undefined"] > min(0.95, 2 * b["undefined"] + 0.15):
            notes.append(f"coverage loss (advisory): surface {name!r}: {r['undefined']:.0%} of the cases are outside the model's domain, was {b['undefined']:.0%}")
        if r["impl_exc"] > min(0.95, 2 * b["impl_exc"] + 0.15):
            notes.append(f"coverage loss (advisory): surface {name!r}: {r['impl_exc']:.0%} of the cases end in an implementation error, was {b['impl_exc']:.0%}")
    return notes


def note(pid, text):
    """a remark from a shard process for the evidence file (collected by check.py): things worth telling that are not violations"""
    WORK.mkdir(exist_ok=True)
    with open(WORK / f"notes_{pid}.txt", "a") as f:
        f.write(text.replace("\n", " ") + "\n")


def collect_notes(pid):
    p = WORK / f"notes_{pid}.txt"
    if not p.exists():
        return []
    lines = p.read_text().splitlines()
    p.unlink()
    out = {}
    for l in lines:
        out[l] = out.get(l, 0) + 1
    return [f"{l} (x{n})" for l, n in out.items()]


def load_known():
    p = VERIF / "known_findings.json"
    if not p.exists():
        return []
    return json.loads(p.read_text()).get("findings", [])


def match_known(pid, tags, known, impl=None):
    """a divergence is a known finding only when the shrunk input's tag set equals the entry's AND the observed answer has the
    entry's shape: `signature.impl_kinds`, when given, lists the outcome kinds the finding produces (e.g. ERecursion for F17), so
    that another failure on the same inputs (a hang, a different exception) is still reported as new"""
    for f in known:
        if f.get("status") == "known" and pid in (f.get("properties") or [f.get("property")]) \
                and set(f["signature"]["tags"]) == set(tags):
            kinds = f["signature"].get("impl_kinds")
            if kinds and impl is not None:
                got = str(impl[1]) if impl[0] == "EXC" else "ok"
                if got not in kinds:
                    continue
            return f
    return None


MODEL_FUNCTIONS = frozenset(["Condition", "Fn::And", "Fn::Base64", "Fn::Equals", "Fn::FindInMap", "Fn::GetAtt", "Fn::GetAZs", "Fn::If",
                             "Fn::ImportValue", "Fn::Join", "Fn::Not", "Fn::Or", "Fn::Select", "Fn::Split", "Fn::Sub", "Ref"])
_FOREIGN = None


def foreign_functions():
    """intrinsic functions the LIVE code implements and the model does not know (Resolver/GenChecks.v proves the inclusion the other
    way round on every run).  A newly supported intrinsic is an ordinary upstream change; an input that mentions one is outside the
    model's domain: it is not compared, it is counted, and the evidence says so."""
    global _FOREIGN
    if _FOREIGN is None:
        try:
            from pycfmodel.constants import IMPLEMENTED_FUNCTIONS
            _FOREIGN = frozenset(f for f in IMPLEMENTED_FUNCTIONS if isinstance(f, str)) - MODEL_FUNCTIONS
        except Exception:   # noqa
            _FOREIGN = frozenset()
    return _FOREIGN


def mentions_key(x, names, depth=0):
    if depth > 200:
        return False
    if isinstance(x, dict):
        return any((k in names) or mentions_key(v, names, depth + 1) for k, v in x.items())
    if isinstance(x, (list, tuple)):
        return any(mentions_key(v, names, depth + 1) for v in x)
    return False


def run_shard(pmod, tier, seed, shard, nshards, budget_s):
    """Differential loop for one shard.  Returns Stats."""
    st = Stats()
    foreign = foreign_functions()
    if foreign:
        note(pmod.ID, "the live resolver implements intrinsic functions the model does not know: " + ", ".join(sorted(foreign)) +
             "; cases that mention them are outside the model's domain (counted as model_undefined, distribution key foreign-function)")
    rng = random.Random(f"{seed}/{pmod.ID}/{shard}")
    rn = Runner(keep_samples=max(1, 240 // nshards), rng=random.Random(f"s{seed}/{shard}"))
    known = load_known()
    t0 = time.time()
    try:
        if hasattr(pmod, "prepare"):
            pmod.prepare(rn)
        for surf, x in pmod.cases(rng, tier, shard, nshards):
            if time.time() - t0 > budget_s:
                st.bump("stopped_by_time_budget")
                break
            if foreign and mentions_key(x, foreign):
                st.evaluations += 1
                st.by_surface[surf.name] = st.by_surface.get(surf.name, 0) + 1
                st.undefined += 1
                st.bump("surface_undefined:" + surf.name)
                st.bump("foreign-function")
                continue
            try:
                i = surf.impl(x)
            except HelperGone as e:
                st.evaluations += 1
                st.by_surface[surf.name] = st.by_surface.get(surf.name, 0) + 1
                st.undefined += 1
                st.bump("surface_undefined:" + surf.name)
                st.bump("private-helper-gone")
                note(pmod.ID, f"private helper {e} behind the surface {surf.name!r} is no longer there (refactored away?): that surface ran "
                              "no comparison; the public entry points keep covering the behaviour")
                continue
            m = surf.model(rn, x)
            st.evaluations += 1
            st.by_surface[surf.name] = st.by_surface.get(surf.name, 0) + 1
            if m[0] == "EXC" and m[1] == "EUndefined":
                st.undefined += 1
                st.bump("surface_undefined:" + surf.name)
                continue
            if i[0] == "EXC":
                st.bump("surface_impl_exc:" + surf.name)
            for t in surf.tags(x):
                st.bump("tag:" + t)
            st.bump("outcome:" + (i[1] if i[0] == "EXC" else "ok"))
            if surf.nontrivial(x, i, m):
                st.nontrivial.add(stable_hash([surf.name, x]))
                st.bump("surface_nontrivial:" + surf.name)
            if len(st.samples) < 6 and (st.evaluations % 97 == 1):
                st.samples.append({"surface": surf.name, "input": surf.describe(x), "impl": wire.jsonable(i), "model": wire.jsonable(m)})
            if surf.agree(x, i, m):
                continue
            resource_outcome = i[0] == "EXC" and str(i[1]).startswith(("TIMEOUT", "KILLED"))
            if i[0] == "EXC" and str(i[1]).startswith(("TIMEOUT", "KILLED")):
                # a resource outcome (time limit, kill) must REPRODUCE to count: a genuine hang or blow-up is deterministic,
                # a slow moment of a loaded machine is not (false-alarm guard; the number of such moments is in the evidence)
                i2 = surf.impl(x)
                m2 = surf.model(rn, x)
                if not (m2[0] == "EXC" and m2[1] == "EUndefined") and surf.agree(x, i2, m2):
                    st.bump("transient_resource_outcome_not_reproduced")
                    continue
                i, m = i2, m2
            # divergence: shrink, classify
            def still(c):
                ii, mm = surf.impl(c), surf.model(rn, c)
                return not (mm[0] == "EXC" and mm[1] == "EUndefined") and not surf.agree(c, ii, mm)
            xs = shrink(x, still, frozen=surf.frozen) if surf.shrinkable else x
            ii, mm = surf.impl(xs), surf.model(rn, xs)
            if resource_outcome and not (mm[0] == "EXC" and mm[1] == "EUndefined") and surf.agree(xs, ii, mm):
                # the case that is about to be reported no longer fails: the disagreement was a time limit / kill (twice in a row, on a
                # machine under sustained load) and not a property of the input.  Ask the ORIGINAL input once more; report it, as it
                # is, only if it fails again (false-alarm guard: seen with three other checks and a thorough run sharing the cores)
                i3, m3 = surf.impl(x), surf.model(rn, x)
                if (m3[0] == "EXC" and m3[1] == "EUndefined") or surf.agree(x, i3, m3):
                    st.bump("transient_resource_outcome_not_reproduced")
                    continue
                xs, ii, mm = x, i3, m3
            tags = sorted(surf.tags(xs))
            kf = match_known(pmod.ID, tags, known, ii)
            if kf:
                st.known_seen[kf["id"]] = st.known_seen.get(kf["id"], 0) + 1
                continue
            sig = stable_hash([surf.name, tags, wire.jsonable(ii)[:2] if ii[0] == "EXC" else "ok"])
            if any(v["sig"] == sig for v in st.violations):
                st.bump("duplicate_violation")
                continue
            st.violations.append({
                "sig": sig, "surface": surf.name, "theorem": surf.theorem, "tags": tags,
                "input": surf.describe(xs), "original_input": surf.describe(x),
                "impl": wire.jsonable(ii), "model": wire.jsonable(mm), "shard": shard,
            })
            if len(st.violations) >= 8 or time.time() - t0 > 3 * budget_s + 120:
                break
    finally:
        st.runner_samples = rn.samples
        rn.close()
    return st


def _shard_entry(args):
    modname, tier, seed, shard, nshards, budget_s = args
    import importlib
    import logging
    import warnings
    logging.disable(logging.CRITICAL)
    warnings.simplefilter("ignore")
    pmod = importlib.import_module(modname)
    try:
        return run_shard(pmod, tier, seed, shard, nshards, budget_s)
    except Exception:
        st = Stats()
        st.violations.append({"sig": "harness-crash", "surface": "harness", "theorem": "harness", "tags": ["harness-crash"],
                              "input": traceback.format_exc()[-3000:], "impl": None, "model": None, "shard": shard, "crash": True})
        return st


def run_all_shards(pmod, tier, seed, nshards, budget_s):
    args = [(pmod.__name__, tier, seed, s, nshards, budget_s) for s in range(nshards)]
    total = Stats()
    if nshards == 1:
        total.merge(_shard_entry(args[0]))
        return total
    import multiprocessing as mp
    with ProcessPoolExecutor(max_workers=nshards, mp_context=mp.get_context("fork")) as ex:
        for st in ex.map(_shard_entry, args):
            total.merge(st)
    return total


def kernel_crosscheck(pid, samples, state_expr="RState.init", extra_imports=""):
    """Re-evaluate sampled runner calls inside Coq with vm_compute; they must reproduce the runner's answers."""
    if not samples:
        return 0, True, ""
    # literal size bounds the cost of type-checking cases.v: keep a token budget
    picked, budget = [], 40000
    for smp in samples:
        cost = len(wire.enc(smp[1])) + len(wire.enc(smp[2]))
        if cost <= budget:
            picked.append(smp)
            budget -= cost
    samples = picked
    if not samples:
        return 0, True, ""
    WORK.mkdir(exist_ok=True)
    path = WORK / f"cases_{pid}_{os.getpid()}.v"
    rows = ";\n".join(f"(({op})%N, {wire.coq_value(arg)}, {wire.coq_value(out)})" for op, arg, out in samples)
    text = f"""From Coq Require Import List Bool NArith ZArith.
From PV Require Import Base.Str Base.Value Base.Wire Run.RState Runner.
{extra_imports}
Import ListNotations.
Local Open Scope N_scope.
Definition cases : list (N * value * value) := [
{rows}
].
Definition st0 : rstate := {state_expr}.
Definition ok (c : N * value * value) : bool :=
  let '(op, arg, out) := c in vstrict_eqb (snd (Runner.run st0 op arg)) out.
Definition bad := filter (fun c => negb (ok c)) cases.
Eval vm_compute in (length cases, length bad).
"""
    path.write_text(text)
    rc, out = sh(["timeout", "900", "coqc"] + COQFLAGS + [str(path)], timeout=930)
    for ext in (".v", ".vo", ".vok", ".vos", ".glob"):
        try:
            path.with_suffix(ext).unlink()
        except OSError:
            pass
    try:
        (path.parent / ("." + path.stem + ".aux")).unlink()
    except OSError:
        pass
    m = re.search(r"=\s*\((\d+)(?:%nat)?,\s*(\d+)(?:%nat)?\)", out)
    ok = rc == 0 and m is not None and int(m.group(2)) == 0 and int(m.group(1)) == len(samples)
    return len(samples), ok, out[-1500:]


def write_replay(pid, seed, n, data):
    d = VERIF / "replays"
    d.mkdir(exist_ok=True)
    p = d / f"{pid}-{seed}-{n}.json"
    data = dict(data)
    data["property"] = pid
    data["seed"] = seed
    data["how_to_replay"] = f"bin/check {pid} --replay {p}"
    p.write_text(json.dumps(data, indent=1, default=str))
    return p


def write_evidence(pid, tier, seed, coverage, assumptions, wall, violations):
    d = VERIF / "evidence"
    d.mkdir(exist_ok=True)
    ev = {
        "property_id": pid, "tier": tier, "seed": seed, "level": "proof",
        "coverage": coverage, "assumptions": assumptions, "wall_s": round(wall, 2), "violations": violations,
    }
    (d / f"{pid}.json").write_text(json.dumps(ev, indent=1, default=str))
