"""Whole-template generator and the end-to-end surface parse(t).resolve(extra) vs Template.resolve_model."""
import copy

import core
import resgen
import wire
from resgen import ExprGen

PSEUDO_NAMES = ["AWS::AccountId", "AWS::Region", "AWS::Partition", "AWS::StackName", "AWS::URLSuffix"]
SAFE = ["a", "b", "prod", "x-y", "my bucket", "arn:aws:s3:::b", "v1", "", "k1", "s", "eu-west-1", "A", "é中", "x€y", "7", "0"]


class TEnv:
    """duck-types resgen.Env for ExprGen"""

    def __init__(self, rng, findings=False):
        self.rng = rng
        self.findings = findings
        self.params = {}
        self.mappings = {}
        self.conds = {}

    mapping_leaf = resgen.Env.mapping_leaf


def gen_parameters(rng, tenv, findings=False):
    decls = {}
    for n in rng.sample(["A", "B", "Env", "L", "P_1", "Secret", "Num", "SsmP", "AWS::Region"], rng.randint(0, 6)):
        d = {}
        k = rng.random()
        if n == "L" or k < 0.15:
            d["Type"] = rng.choice(["CommaDelimitedList", "List<Number>"])
            if rng.random() < 0.6:
                d["Default"] = rng.choice(["a,b", "1,2,3", "x", "", "a,,b", "a,True,FALSE", "True", "x,{{resolve:ssm:/p/a:1}}"])
            tenv.params[n] = ["a"]
        elif n == "Num" or k < 0.3:
            d["Type"] = "Number"
            if rng.random() < 0.7:
                d["Default"] = rng.choice([5, "7", 0, "0", 12345678901234567890])
            tenv.params[n] = "5"
        elif n == "SsmP" or k < 0.4:
            d["Type"] = "AWS::SSM::Parameter::Value<String>"
            if rng.random() < 0.7:
                d["Default"] = rng.choice(["/p/a", "name", "/p/a"])
            tenv.params[n] = "x"
        else:
            d["Type"] = "String"
            if rng.random() < 0.7:
                d["Default"] = rng.choice(SAFE + ["True", "FALSE", "true", "${A}", "x${!B}", "{{resolve:ssm:/p/a:1}}"])
                if rng.random() < 0.15:
                    # a Default written as a YAML / JSON boolean or number (Default: true, Default: 1.0): rendered with str(),
                    # never coerced by a typed annotation (seeded change C04-r4m1)
                    d["Default"] = rng.choice([True, False, 1, 0, 1.0, 0.0, 2.5, -3])
            tenv.params[n] = "x"
        if rng.random() < 0.18:
            # AllowedValues / AllowedPattern are constraints CloudFormation enforces at deploy time: resolution ignores them,
            # whatever their spelling (booleans against "true", numbers against "80": seeded changes C01-r4m2 / C02-r4m1)
            d["AllowedValues"] = rng.choice([[True, False], ["true", "false"], ["True", "False"], [80, 443], ["80", "443"],
                                             ["prod", "dev"], [1, 0], []])
        if rng.random() < 0.06:
            d["AllowedPattern"] = rng.choice(["[a-z]+", "^(true|false)$", "\\d{1,5}", ".*"])
        if n == "Secret" or rng.random() < 0.12:
            d["NoEcho"] = rng.choice([True, "true", True, False])
        if rng.random() < 0.2:
            d["Description"] = "d"
        decls[n] = d
    return decls


def gen_extra(rng, decls):
    extra = {}
    for n, d in decls.items():
        if rng.random() < 0.4:
            if d["Type"] in ("CommaDelimitedList", "List<Number>"):
                # items that resolution must still render (True -> true, an SSM reference), also in an already split list
                # (seeded change C03-r4m1: a list-valued parameter handed out without being walked)
                extra[n] = rng.choice(["p,q", "9", "", "1,2", "a,True,b", "FALSE", "--dry-run,True,--retries,3", "x,{{resolve:ssm:/p/a:1}}",
                                       ["p", "True"], ["FALSE", "q", "TRUE"], ["{{resolve:ssm:/p/a:1}}", "s"], [1, True, "x"]])
            elif d["Type"] == "Number":
                extra[n] = rng.choice(["42", 42, "0"])
            else:
                extra[n] = rng.choice(SAFE + ["TRUE", "supplied", "true", "false", "False", "80", "443", "prod", True, False, 80, 1.0])
    if rng.random() < 0.3:
        extra[rng.choice(["Undeclared", "Z9", "Missing"])] = rng.choice(SAFE)
    if rng.random() < 0.3:
        extra[rng.choice(PSEUDO_NAMES)] = rng.choice(["us-east-1", "999", "aws-cn"])
    if rng.random() < 0.3:
        extra["/p/a:1"] = rng.choice(["ssm-val", "TRUE", ""])
    named = [d["Default"] for d in decls.values() if isinstance(d.get("Default"), str) and d["Default"] and d["Default"] not in decls]
    if named and rng.random() < 0.2:
        # a supplied key that is the TEXT of some parameter's Default (for an AWS::SSM::Parameter::Value<..> parameter: the SSM name
        # it points to).  It is one more undeclared name, nothing else: values are supplied under the parameter's own name
        # (seeded change C07-r5m2 let the first SSM-typed parameter with that Default consume it)
        extra[rng.choice(named)] = rng.choice(["ami-0123456789abcdef0", "by-default-name", "TRUE"])
    return extra


def gen_conditions(rng, g, n=None):
    names = ["C1", "C2", "IsProd", "é", "C5", "C6", "True", "FALSE"]
    k = rng.randint(0, 4) if n is None else n
    chosen = rng.sample(names, k)
    conds = {}
    for c in chosen:
        g.env.conds[c] = True
    for c in chosen:
        conds[c] = g.b(rng.choice([0, 1, 1, 2]))
    return conds


def gen_condition_template(rng, n):
    """focus on the condition graph: n conditions referring to each other (DAGs, cycles, self loops, undeclared names),
    operands of every scalar type, resources gated on them"""
    tenv = TEnv(rng)
    for p in PSEUDO_NAMES:
        tenv.params[p] = "x"
    g = ExprGen(rng, tenv)
    decls = gen_parameters(rng, tenv) if rng.random() < 0.5 else {}
    names = rng.sample(["C1", "C2", "IsProd", "é", "C5", "C6", "True", "FALSE"], n)
    for c in names:
        tenv.conds[c] = True

    def operand():
        k = rng.random()
        if k < 0.45:
            return rng.choice(["a", "b", "prod", "true", "TRUE", "1", 1, True, False, 0, "", "x-y",
                               "us-east-1", "eu-west-1", "999", "123456789012", "aws-cn", "aws", "other", "changed"])
        if k < 0.75:
            return {"Ref": rng.choice(list(decls) + PSEUDO_NAMES + ["Missing"])}
        if k < 0.9:
            return {"Fn::Sub": rng.choice(["${AWS::Region}", "x${!A}", "a", "${Missing}"])}
        return {"Fn::Join": ["", [rng.choice(["a", "pro"]), rng.choice(["", "d"])]]}

    def body(d):
        k = rng.random()
        if d <= 0 or k < 0.3:
            return {"Fn::Equals": [operand(), operand()]}
        if k < 0.6:
            return {"Condition": rng.choice(names) if rng.random() < 0.88 else "Undeclared"}
        if k < 0.72:
            return {"Fn::Not": [body(d - 1)]}
        if k < 0.86:
            return {"Fn::And": [body(d - 1) for _ in range(rng.randint(1, 3))]}
        return {"Fn::Or": [body(d - 1) for _ in range(rng.randint(1, 3))]}

    conds = {c: body(rng.choice([1, 1, 2, 3])) for c in names}
    if n >= 3 and rng.random() < 0.2:
        # a cycle with a CLEAN side branch evaluated after the cycle was hit: A = And/Or(.. B .. C ..), B = Not(A) (or a longer way
        # back to A), C a condition outside the cycle that nothing has evaluated yet.  Whatever bookkeeping tells "this value was
        # computed while a cycle was cut" must survive the nested clean evaluation (seeded change C07-r7Bm1 reset it there); the
        # declaration order decides which condition is entered first, so every order must give the same values.
        a, b, c = names[:3]
        side = {"Fn::Equals": [operand(), operand()]} if rng.random() < 0.7 else {"Fn::Not": [{"Fn::Equals": ["x", "y"]}]}
        back = rng.choice([{"Fn::Not": [{"Condition": a}]}, {"Condition": a}, {"Fn::Or": [{"Fn::Equals": ["p", "q"]}, {"Condition": a}]},
                           {"Fn::Not": [{"Fn::And": [{"Condition": a}, {"Fn::Equals": ["a", "a"]}]}]}])
        members = [{"Condition": b}, {"Condition": c}]
        if rng.random() < 0.3:
            members.insert(rng.randrange(3), {"Fn::Equals": ["a", "a"]})
        if rng.random() < 0.3:
            members.reverse()
        special = {a: {rng.choice(["Fn::And", "Fn::And", "Fn::Or"]): members}, b: back, c: side}
        order = [a, b, c] + names[3:]
        rng.shuffle(order)
        conds = {k: special.get(k, conds[k]) for k in order}
        # Fn::If inside a condition, naming a condition declared later (not valid CloudFormation, but parsed and resolved on demand
        # like every other reference: seeded change C07-r7Im2 subscripted the mapping instead of asking the resolver)
    if names and rng.random() < 0.12:
        k1 = rng.choice(names)
        conds[k1] = {"Fn::Equals": [{"Fn::If": [rng.choice(names), "live", "test"]}, rng.choice(["live", "test"])]}
        ks = list(conds)
        rng.shuffle(ks)
        conds = {k: conds[k] for k in ks}
    resources = {}
    if n >= 3:
        for i, cn in enumerate(list(conds)[:3]):
            resources[f"G{i + 1}"] = {"Type": "Custom::Gate", "Condition": cn, "Properties": {"V": {"Fn::If": [cn, "yes", "no"]}}}
    for i in range(rng.randint(1, 3)):
        r = gen_resource(rng, g, 1)
        if rng.random() < 0.7:
            r["Condition"] = g.cname()
        resources[f"R{i + 1}"] = r
    t = {"Resources": resources}
    if decls:
        t["Parameters"] = decls
    if conds:
        t["Conditions"] = conds
    return {"template": t, "extra": gen_extra(rng, decls)}


def gen_chain_template(rng, n=None):
    """a LONG chain of conditions (Tier0 <- Tier1 <- ... <- Tier(n-1)): each refers to the next through Condition / Fn::Not /
    Fn::And / Fn::Or, the last one is an Fn::Equals; sometimes the last refers back to the first (one long cycle) or a link names
    an undeclared condition.  Declared ascending, descending or shuffled; a resource is gated on Tier0, another uses Fn::If on it.
    (Depth is bounded by the interpreter: each link costs ~6 Python frames in the code, so n <= 70.)"""
    n = n or rng.choice([12, 25, 34, 35, 40, 48, 64, 70])
    names = [f"Tier{i}" for i in range(n)]
    truth = rng.random() < 0.5
    conds = {}
    for i, c in enumerate(names[:-1]):
        nxt = {"Condition": names[i + 1]}
        k = rng.random()
        if k < 0.55:
            conds[c] = nxt
        elif k < 0.75:
            conds[c] = {"Fn::Not": [nxt]}
        elif k < 0.88:
            conds[c] = {"Fn::And": [{"Fn::Equals": ["a", "a"]}, nxt]}
        else:
            conds[c] = {"Fn::Or": [{"Fn::Equals": ["a", "b"]}, nxt]}
    last = rng.random()
    if last < 0.75:
        conds[names[-1]] = {"Fn::Equals": ["x", "x" if truth else "y"]}
    elif last < 0.9:
        conds[names[-1]] = {"Fn::Not": [{"Condition": names[0]}]}          # one cycle through the whole chain
    else:
        conds[names[-1]] = {"Condition": "NotDeclaredAnywhere"}
    order = list(names)
    how = rng.choice(["ascending", "descending", "shuffled"])
    if how == "descending":
        order.reverse()
    elif how == "shuffled":
        rng.shuffle(order)
    t = {"Conditions": {c: conds[c] for c in order},
         "Resources": {"Gated": {"Type": "Custom::Thing", "Condition": names[0], "Properties": {"A": "x"}},
                       "Mid": {"Type": "Custom::Thing", "Condition": names[n // 2], "Properties": {"A": "y"}},
                       "Pick": {"Type": "AWS::S3::Bucket", "Properties": {"BucketName": {"Fn::If": [names[0], "yes", "no"]},
                                                                            "Tags": [{"Key": "k", "Value": {"Fn::If": [names[n - 2], "t", "f"]}}]}}}}
    return {"template": t, "extra": {}}


def statement(rng, g, d):
    st = {"Effect": rng.choice(["Allow", "Deny", "allow"])}
    if rng.random() < 0.5:
        st["Sid"] = g.s(d)
    st["Action"] = rng.choice(["s3:GetObject", ["s3:Get*", "s3:Put*"], "sts:AssumeRole", ["ec2:Describe*"]])
    r = rng.random()
    if r < 0.4:
        st["Resource"] = g.s(d)
    elif r < 0.8:
        st["Resource"] = g.l(d)
    if rng.random() < 0.4:
        st["Principal"] = rng.choice([g.s(d), {"AWS": g.s(d)}, {"Service": g.l(d)}, "*"])
    if rng.random() < 0.3:
        st["Condition"] = {rng.choice(["StringEquals", "StringLike", "ForAnyValue:StringLike"]): {"aws:k": g.s(d) if rng.random() < 0.6 else g.l(d)}}
    return st


def policy_document(rng, g, d):
    sts = [statement(rng, g, d) for _ in range(rng.randint(1, 2))]
    return {"Version": "2012-10-17", "Statement": sts if rng.random() < 0.8 else sts[0]}


def opt(rng, g, v):
    """optionally wrap a property value in Fn::If with AWS::NoValue"""
    if rng.random() < 0.15:
        br = [v, {"Ref": "AWS::NoValue"}]
        if rng.random() < 0.5:
            br.reverse()
        return {"Fn::If": [g.cname()] + br}
    return v


def gen_resource(rng, g, d):
    k = rng.random()
    g.str_only = k < 0.62
    if k < 0.3:
        props = {"PolicyName": g.s(d), "PolicyDocument": policy_document(rng, g, d)}
        if rng.random() < 0.5:
            props["Users"] = opt(rng, g, g.l(d))
        if rng.random() < 0.3:
            props["Roles"] = opt(rng, g, g.s(d))
        r = {"Type": "AWS::IAM::Policy", "Properties": props}
    elif k < 0.5:
        props = {"AssumeRolePolicyDocument": policy_document(rng, g, d)}
        if rng.random() < 0.6:
            props["RoleName"] = opt(rng, g, g.s(d))
        if rng.random() < 0.5:
            props["Tags"] = [{"Key": g.s(d), "Value": g.s(d)} for _ in range(rng.randint(0, 2))]
        if rng.random() < 0.4:
            props["ManagedPolicyArns"] = g.l(d)
        if rng.random() < 0.4:
            props["Policies"] = [{"PolicyName": g.s(d), "PolicyDocument": policy_document(rng, g, d)}]
        r = {"Type": "AWS::IAM::Role", "Properties": props}
    elif k < 0.62:
        props = {}
        if rng.random() < 0.7:
            props["BucketName"] = opt(rng, g, g.s(d))
        if rng.random() < 0.5:
            props["Tags"] = [{"Key": g.s(d), "Value": g.s(d)}]
        r = {"Type": "AWS::S3::Bucket", "Properties": props}
    else:
        props = {}
        for key in rng.sample(["TopicName", "Items", "Nested", "Enabled", "Count", "Opt", "Unsupported"], rng.randint(0, 4)):
            if key == "Unsupported":
                props[key] = g.unsupported(max(d, 1))
            elif key == "Items":
                props[key] = g.l(d)
            elif key == "Nested":
                props[key] = {"A": g.s(d), "B": [g.s(d)], "C": {"D": g.s(d)}}
            elif key == "Opt":
                props[key] = {"Fn::If": [g.cname(), g.s(d), {"Ref": "AWS::NoValue"}]}
            else:
                props[key] = g.s(d)
        r = {"Type": rng.choice(["AWS::SNS::Topic", "Custom::Thing", "AWS::Foo::Bar", "AWS::SNS::Topic", "Custom::Thing",
                                 "{{resolve:ssm:/p/a:1}}", "TRUE", "AWS::NoValue"]), "Properties": props}
    if rng.random() < 0.35:
        r["Condition"] = g.cname()
    if rng.random() < 0.15:
        r["DependsOn"] = rng.choice(["R1", ["R1", "R2"]])
    if rng.random() < 0.1:
        r["Metadata"] = {"Note": g.s(d), "K": [g.s(d)]}
    # intrinsic functions in the resource attributes OTHER than Properties ("wherever it sits in a resource"; added after
    # seeded changes C01-r3m2 / C03-r3m1, which resolved only some attributes / skipped resources without Properties)
    generic = k >= 0.62
    was = g.str_only
    g.str_only = True
    if rng.random() < 0.12:
        r["DeletionPolicy"] = opt(rng, g, g.s(d)) if rng.random() < 0.3 else g.s(d)
    if rng.random() < 0.08:
        r["UpdateReplacePolicy"] = g.s(d)
    if rng.random() < 0.08:
        r["DependsOn"] = g.s(d) if rng.random() < 0.5 else g.l(d)
    if rng.random() < 0.08:
        r["UpdatePolicy"] = {"AutoScalingRollingUpdate": {"MinInstancesInService": g.s(d), "PauseTime": g.s(d)}}
    if rng.random() < 0.06:
        r["CreatePolicy"] = {"ResourceSignal": {"Count": g.s(d), "Timeout": "PT5M"}}
    if generic and rng.random() < 0.1:
        r["CreationPolicy"] = {"ResourceSignal": {"Count": g.s(d)}, "L": g.l(d)}
    if generic and rng.random() < 0.12 and any(a in r for a in ("DeletionPolicy", "CreationPolicy", "UpdatePolicy", "Metadata", "DependsOn")):
        del r["Properties"]       # a resource without a Properties block (WaitConditionHandle style)
    g.str_only = was
    return r


def gen_template(rng, focus="values", findings=False):
    tenv = TEnv(rng, findings)
    for p in PSEUDO_NAMES:
        tenv.params[p] = "x"
    g = ExprGen(rng, tenv)
    decls = gen_parameters(rng, tenv)
    for m in rng.sample(["M", "RegionMap"], rng.randint(0, 2)):
        tenv.mappings[m] = {}
        for k1 in rng.sample(["k1", "eu-west-1", "prod", "a", "True", "FALSE", "true"], rng.randint(1, 3)):
            tenv.mappings[m][k1] = {}
            for k2 in rng.sample(["s", "l", "b", "v1", "False", "TRUE"], rng.randint(1, 3)):
                tenv.mappings[m][k1][k2] = tenv.mapping_leaf()
    conds = gen_conditions(rng, g)
    d = rng.choice([1, 2, 2, 3])
    resources = {f"R{i + 1}": gen_resource(rng, g, d) for i in range(rng.randint(1, 4))}
    if rng.random() < 0.08:
        # a logical id spelled like an intrinsic function, sometimes the only resource (seeded change C14-r4m1)
        keep = rng.choice(list(resources))
        odd = rng.choice(["Ref", "Condition", "GETATT", "Type"])
        resources = {odd: resources[keep]} if rng.random() < 0.5 else {**{k: v for k, v in resources.items() if k != keep}, odd: resources[keep]}
    t = {"AWSTemplateFormatVersion": "2010-09-09", "Resources": resources}
    if decls:
        t["Parameters"] = decls
    if tenv.mappings:
        t["Mappings"] = tenv.mappings
    if conds:
        t["Conditions"] = conds
    return {"template": t, "extra": gen_extra(rng, decls)}


def raw_param_decls(m, template=None):
    """Parameter declarations for the model: the template's OWN text for Default (a typed annotation on Parameter.Default must not
    be able to rewrite it unnoticed: seeded change C04-r4m1 turned `Default: true` into 1 inside the parse both sides shared),
    the parsed value only for NoEcho (pydantic's lenient bool: a leaf) and Type."""
    dump = m.model_dump().get("Parameters") or {}
    raw = (template or {}).get("Parameters") if isinstance(template, dict) else None
    if not isinstance(raw, dict):
        return dump
    out = {}
    for name, d in dump.items():
        r = raw.get(name)
        d = dict(d)
        if isinstance(r, dict):
            if "Default" in r:
                d["Default"] = r["Default"]
            else:
                d["Default"] = None
        out[name] = d
    return out


def model_args(m, extra, template=None):
    """Arguments of Template.resolve_model taken from the parsed model (dump = what CFModel.resolve works on)."""
    from pycfmodel.model.cf_model import CFModel
    dump = m.model_dump()
    return [
        resgen.to_wire(dict(CFModel.PSEUDO_PARAMETERS)),
        resgen.to_wire(raw_param_decls(m, template)),
        resgen.to_wire(extra),
        resgen.to_wire(m.Mappings or {}),
        resgen.to_wire(dump.get("Conditions") or {}),
        resgen.to_wire(dump.get("Resources") or {}),
    ]


def impl_e2e(x):
    import pycfmodel

    def run():
        m = pycfmodel.parse(copy.deepcopy(x["template"]))
        r = m.resolve(copy.deepcopy(x["extra"]))
        d = r.model_dump()
        return {"Conditions": resgen.to_wire(d["Conditions"]), "Resources": resgen.to_wire(d["Resources"])}
    return core.impl_call(run)


def from_wire(v):
    """model value -> plain Python data (resolved output holds no typed atoms)"""
    if isinstance(v, wire.Typed):
        return v.text
    if isinstance(v, list):
        return [from_wire(z) for z in v]
    if isinstance(v, dict):
        return {k: from_wire(z) for k, z in v.items()}
    return v


def text_drift(raw, got, path=()):
    """paths at which the model's resolved value and the implementation's stored value are BOTH text and differ.  Typed conversions
    (text -> number, boolean, date, network, bytes, decoded JSON) are not text on the implementation side and are skipped (C15 / C18);
    the one text-to-text normalisation the library documents is the capitalised Effect of a statement."""
    if isinstance(raw, dict) and isinstance(got, dict):
        for k, v in raw.items():
            if k in got:
                yield from text_drift(v, got[k], path + (k,))
    elif isinstance(raw, list) and isinstance(got, list):
        if len(raw) == len(got):
            for n, (a, b) in enumerate(zip(raw, got)):
                yield from text_drift(a, b, path + (n,))
    elif isinstance(raw, str) and isinstance(got, str) and raw != got:
        if path and path[-1] == "Effect" and raw.capitalize() == got:
            return
        yield path


class E2ESurface(core.Surface):
    """parse(t).resolve(extra) against Template.resolve_model.  Both sides end with the same re-validation
    CFModel(**plain) (pydantic + generic casting: leaf oracles here, the subject of C15/C18), so what is compared is
    exactly pycfmodel's resolution logic."""
    name = "parse(t).resolve(extra)"
    shrinkable = True
    frozen = frozenset()

    def __init__(self, theorem):
        self.theorem = theorem

    def impl(self, x):
        return impl_e2e(x)

    def model(self, rn, x):
        import pycfmodel
        from pycfmodel.model.cf_model import CFModel
        try:
            m = pycfmodel.parse(copy.deepcopy(x["template"]))
        except Exception:
            return ("EXC", "EUndefined", "")
        r = core.model_res(rn.call(102, model_args(m, x["extra"], x["template"])))
        if r[0] != "OK":
            return r
        out = from_wire(r[1])

        def reval():
            dv = m.model_dump()
            dv.pop("Conditions", None)
            dv.pop("Resources", None)
            d = CFModel(**dv, Conditions=out["Conditions"], Resources=out["Resources"]).model_dump()
            return {"Conditions": resgen.to_wire(d["Conditions"]), "Resources": resgen.to_wire(d["Resources"]),
                    "_raw": r[1].get("Resources")}
        return core.impl_call(reval)

    def agree(self, x, i, m):
        if m[0] == "OK" and isinstance(m[1], dict) and "_raw" in m[1]:
            # the model's resolved TEXT, before any re-validation by the library, against what the implementation stored: where both
            # are text they are the same text.  (The final comparison below goes through CFModel(**plain) on BOTH sides, so a
            # validation layer that rewrites text -- seeded change C01-r6Cm2: str_strip_whitespace on one Properties class -- would
            # rewrite the model's answer too.)
            raw = m[1]["_raw"]
            m = ("OK", {k: v for k, v in m[1].items() if k != "_raw"})
            if i[0] == "OK" and isinstance(i[1], dict) and list(text_drift(raw, i[1].get("Resources"))):
                return False
        if x.get("valid") and i[0] == "EXC":
            # a template that is valid by construction (instances of the live schema, functions only where text is expected): an
            # exception from parse / resolve is never "the same failure on both sides" -- the model side ends with the same
            # CFModel(**plain) re-validation, so a field that starts refusing resolved text would fail there too
            return False
        if i[0] == "EXC" and m[0] == "EXC":
            return True    # which of several failing parts is reported first is an evaluation-order artefact
        return super().agree(x, i, m)

    def tags(self, x):
        t = {f.replace("Fn::", "").lower() for f in resgen.function_names(x["template"].get("Resources", {}))}
        t |= {"cond:" + f.replace("Fn::", "").lower() for f in resgen.function_names(x["template"].get("Conditions", {}))}
        for d in (x["template"].get("Parameters") or {}).values():
            if isinstance(d, dict):
                if d.get("NoEcho"):
                    t.add("noecho")
                if d.get("Type") in ("CommaDelimitedList", "List<Number>"):
                    t.add("listparam")
        return t

    def nontrivial(self, x, i, m):
        return i[0] == "OK" and resgen.count_functions(x["template"]) >= 2


def gen_typed_template(rng, resolvable=False, n=None):
    """A template whose resources are instances of the live classes built by schemagen.Gen from gen_tables.schema_table():
    every leaf kind of the schema (str, int, semi-strict bool, date, datetime, IPv4/IPv6 network incl. wide ones, base64 binary,
    literal Type, nested property models, generic sub-objects, function objects in Resolvable positions) is drawn with every
    spelling family.  resolvable=True keeps the template inside what resolve() can digest (functions only where a string is
    expected).  Returns {"template", "extra", "leaves": per-leaf-kind counts of what was generated}."""
    import schemagen
    g = schemagen.Gen(rng, rich=True, resolvable=resolvable)
    types = [ty for ty, _ in schemagen.table()["modelled"]]
    resources = {}
    for i in range(n or rng.randint(1, 4)):
        ty = rng.choice(types) if rng.random() < 0.75 else rng.choice(["Custom::Thing", "AWS::SNS::Topic", "AWS::Lambda::Function"])
        resources[f"R{i + 1}"] = g.resource((f"R{i + 1}",), 6, ty)
    if not resolvable and rng.random() < 0.08:
        # a function object in the place of a whole resource (Resolvable[AllResourcesType])
        resources["RF"] = {"Fn::If": ["C1", {"Type": "Custom::A", "Properties": {}}, {"Type": "Custom::B", "Properties": {}}]}
        g.bump("fn@resource")
    t = {"Resources": resources,
         "Parameters": {"P1": {"Type": "String", "Default": "pv"}},
         "Conditions": {"C1": {"Fn::Equals": ["a", "a"]}},
         "Mappings": {"M": {"k1": {"s": "v"}}}}
    if rng.random() < 0.7:
        t["AWSTemplateFormatVersion"] = rng.choice(["2010-09-09", "2010-09-09", "2012-10-17"])
        g.bump("date")
    if rng.random() < 0.4:
        t["Description"] = rng.choice(["d", "", "é中"])
        g.bump("str")
    if rng.random() < 0.3:
        t["Metadata"] = {"AWS::CloudFormation::Interface": {"ParameterGroups": [{"Label": {"default": "x"}}]}, "n": 1}
        g.bump("any")
    if rng.random() < 0.3:
        t["Outputs"] = {"O1": {"Value": "x", "Export": {"Name": "n"}, "Description": "d"}}
        g.bump("dict")
    if rng.random() < 0.3:
        t["Transform"] = rng.choice(["AWS::Serverless-2016-10-31", ["AWS::Serverless-2016-10-31", "AWS::Include"]])
    if rng.random() < 0.2:
        t["Rules"] = {"r": {"Assertions": [{"Assert": {"Fn::Equals": ["a", "a"]}}]}}
    if rng.random() < 0.4:
        p = {"Type": rng.choice(["String", "Number", "CommaDelimitedList"])}
        for k, v in (("Default", "5"), ("NoEcho", rng.choice([True, "true", False])), ("MaxLength", rng.choice([5, "7"])),
                     ("MinValue", 0), ("AllowedValues", ["5", "6"]), ("AllowedPattern", "[0-9]+"), ("Description", "d")):
            if rng.random() < 0.4:
                p[k] = v
        t["Parameters"]["P2"] = p
        g.bump("model:Parameter")
        for k in p:
            g.bump({"NoEcho": "bool", "MaxLength": "posint", "MinValue": "int", "AllowedValues": "list", "Default": "any"}.get(k, "str"))
    extra = {}
    if rng.random() < 0.3:
        extra["P1"] = rng.choice(["supplied", "TRUE", "7"])
    return {"template": t, "extra": extra, "leaves": g.leaves}



def vary_extra(rng, x):
    """a second parameter assignment for the same template: differs in pseudo-parameter overrides / undeclared keys / supplied values"""
    e = dict(x["extra"])
    k = rng.random()
    if k < 0.4:
        n = rng.choice(PSEUDO_NAMES)
        e[n] = {"AWS::Region": "us-east-1", "AWS::AccountId": "999", "AWS::Partition": "aws-cn"}.get(n, "other")
    elif k < 0.6:
        for n in [n for n in e if n in PSEUDO_NAMES][:1]:
            del e[n]
    elif k < 0.8:
        e[rng.choice(["Undeclared", "Missing", "Z9"])] = rng.choice(SAFE)
    else:
        decl = list((x["template"].get("Parameters") or {}))
        if decl:
            e[rng.choice(decl)] = rng.choice(["changed", "a,b,c", "7"])
    return e


def gen_sensitive_sequence(rng):
    """a template whose conditions, Fn::If branches and resource gating DO depend on one key K (a pseudo parameter, an undeclared
    name or a declared parameter), and a list of parameter assignments that differ exactly in K (other keys stay put):
    {"template", "extras"} for SequenceE2ESurface"""
    x = gen_condition_template(rng, rng.randint(1, 3))
    t = x["template"]
    kind = rng.choice(["pseudo", "pseudo", "undeclared", "declared", "declared", "declared-nodefault"])
    if kind == "pseudo":
        K = rng.choice(PSEUDO_NAMES)
    elif kind == "undeclared":
        K = rng.choice(["Stage", "Z9", "Flavour"])
    elif kind == "declared-nodefault":
        K = "Knob"
        t.setdefault("Parameters", {})["Knob"] = {"Type": rng.choice(["String", "CommaDelimitedList", "String"])}
    else:
        K = "Knob"
        t.setdefault("Parameters", {})["Knob"] = {"Type": "String", "Default": rng.choice(["v0", "v1"])}
    v1, v2 = rng.sample(["v1", "v2", "eu-west-1", "us-east-1", "999", "aws-cn", "prod"], 2)
    ref = rng.choice([{"Ref": K}, {"Fn::Sub": "${" + K + "}"}, {"Fn::Join": ["", [{"Ref": K}]]}])
    conds = t.setdefault("Conditions", {})
    conds["OnK"] = {"Fn::Equals": [ref, v1]}
    conds["NotOnK"] = {"Fn::Not": [{"Condition": "OnK"}]}
    if rng.random() < 0.5:
        conds["DeepOnK"] = {"Fn::And": [{"Condition": "NotOnK"}, {"Fn::Equals": [{"Ref": K}, v2]}]}
    cn = rng.choice(list(conds))
    t["Resources"]["Gated"] = {"Type": "Custom::Gated", "Condition": rng.choice(["OnK", "NotOnK"]), "Properties": {"A": {"Ref": K}}}
    t["Resources"]["Branch"] = {"Type": rng.choice(["Custom::Branch", "AWS::SQS::Queue"]), "Properties": {
        "P": {"Fn::If": [rng.choice(["OnK", "NotOnK", cn]), "yes-" + v1, {"Ref": "AWS::NoValue"} if rng.random() < 0.3 else "no"]},
        "Q": [{"Fn::If": [cn, {"Fn::Sub": "${" + K + "}-x"}, "else"]}]}}
    base = {k: v for k, v in x["extra"].items() if k != K}
    seq = [dict(base, **{K: v}) for v in rng.sample([v1, v2, v1, "third"], rng.choice([2, 3, 4]))]
    if rng.random() < 0.4:
        seq.insert(rng.randrange(len(seq) + 1), dict(base))
    out = {"template": t, "extras": seq}
    k = rng.random()
    if k < 0.35:
        # one dict of stack parameters, handed over again and again
        out["extras"] = [seq[0]] * rng.choice([2, 3])
        out["share"] = True
    if rng.random() < 0.3:
        out["fresh_models"] = True      # each call on a newly parsed model of the same template: only process-wide state is shared
    return out


class SequenceE2ESurface(E2ESurface):
    """history: ONE parsed model resolved with several parameter assignments in a row (x["extras"]); every answer must be the one
    a fresh parse gives -- a memo keyed on part of the inputs, or state left behind by the first call, shows here"""
    name = "m = parse(t); [m.resolve(e) for e in extras]"

    def impl(self, x):
        import pycfmodel

        def run():
            m = pycfmodel.parse(copy.deepcopy(x["template"]))
            out = []
            prev_src, prev_obj = None, None
            for e in x["extras"]:
                if x.get("share") and prev_src == e:
                    arg = prev_obj          # the caller hands over the very same dict object again
                else:
                    arg = copy.deepcopy(e)
                prev_src, prev_obj = e, arg
                if x.get("fresh_models"):
                    m = pycfmodel.parse(copy.deepcopy(x["template"]))
                try:
                    d = m.resolve(arg).model_dump()
                    out.append({"Conditions": resgen.to_wire(d["Conditions"]), "Resources": resgen.to_wire(d["Resources"])})
                except Exception as ex:      # noqa
                    out.append({"error": True})
            return out
        return core.impl_call(run)

    def model(self, rn, x):
        out = []
        for e in x["extras"]:
            m = E2ESurface.model(self, rn, {"template": x["template"], "extra": e})
            if m[0] == "EXC" and m[1] == "EUndefined":
                return m
            out.append(m[1] if m[0] == "OK" else {"error": True})
        return ("OK", out)

    def agree(self, x, i, m):
        if m[0] == "OK" and isinstance(m[1], list):
            raws = [z.get("_raw") if isinstance(z, dict) else None for z in m[1]]
            m = ("OK", [{k: v for k, v in z.items() if k != "_raw"} if isinstance(z, dict) else z for z in m[1]])
            if i[0] == "OK" and isinstance(i[1], list) and len(i[1]) == len(raws):
                for raw, got in zip(raws, i[1]):
                    if raw is not None and isinstance(got, dict) and list(text_drift(raw, got.get("Resources"))):
                        return False
        return core.Surface.agree(self, x, i, m)

    frozen = frozenset({"share", "fresh_models"})

    def tags(self, x):
        return (E2ESurface.tags(self, {"template": x["template"], "extra": {}}) | {"sequence"}
                | ({"shared-dict"} if x.get("share") else set()) | ({"fresh-models"} if x.get("fresh_models") else set()))
