"""Run a callable on one input in a forked worker process under resource limits.

Outcome of one case (a dict):
  outcome   "ok" | "exc" | "timeout" | "killed"
  cls       exception class name (exc), signal name or "exit<n>" (killed), None otherwise
  detail    str(exception)[:300]
  value     the callable's (picklable) return value when outcome == "ok"
  wall_s    wall-clock seconds of the call (parent side for timeout / killed)
  cpu_s     user+system CPU seconds of the call (worker side; None when the worker did not answer)
  rss_kb    peak resident set size of the worker after the call (ru_maxrss), None when it did not answer
  rss_growth_kb   growth of that high-water mark during the call

A worker is persistent (fed through a pipe) for throughput; a worker that hangs (wall timeout), is killed by a
signal (RLIMIT_CPU -> SIGXCPU, segfault, OOM) or raised MemoryError / RecursionError is replaced, and the
event is the outcome of THAT case -- the caller never blocks longer than the wall limit.  Workers live in
their own process group (killpg reaches anything they spawn), have RLIMIT_AS, RLIMIT_CORE=0, a per-case soft
RLIMIT_CPU, close every inherited descriptor except their two pipe ends, and die with their parent.
"""
import ctypes
import os
import pickle
import resource
import select
import signal
import struct
import sys
import time

RESPAWN_AFTER = ("MemoryError", "RecursionError")


def _read_exact(fd, n):
    buf = b""
    while len(buf) < n:
        chunk = os.read(fd, n - len(buf))
        if not chunk:
            return None
        buf += chunk
    return buf


def _send(fd, obj):
    data = pickle.dumps(obj, protocol=pickle.HIGHEST_PROTOCOL)
    os.write(fd, struct.pack("<Q", len(data)))
    view = memoryview(data)
    while view:
        n = os.write(fd, view[:1 << 16])
        view = view[n:]


def _recv(fd):
    head = _read_exact(fd, 8)
    if head is None:
        return None
    body = _read_exact(fd, struct.unpack("<Q", head)[0])
    if body is None:
        return None
    return pickle.loads(body)


def _cpu_now():
    ru = resource.getrusage(resource.RUSAGE_SELF)
    return ru.ru_utime + ru.ru_stime


def _child_main(fn, rfd, wfd, cpu_s, as_bytes, init):
    try:
        os.setpgid(0, 0)
    except OSError:
        pass
    try:
        ctypes.CDLL(None).prctl(1, signal.SIGKILL)          # PR_SET_PDEATHSIG
    except Exception:
        pass
    for sig in (signal.SIGALRM, signal.SIGINT, signal.SIGTERM, signal.SIGXCPU, signal.SIGPIPE):
        signal.signal(sig, signal.SIG_DFL)
    signal.setitimer(signal.ITIMER_REAL, 0)
    keep = {rfd, wfd}
    try:
        fds = [int(x) for x in os.listdir("/proc/self/fd")]
    except OSError:
        fds = range(3, 1024)
    for fd in fds:
        if fd > 2 and fd not in keep:
            try:
                os.close(fd)
            except OSError:
                pass
    dn = os.open(os.devnull, os.O_RDWR)
    for fd in (0, 1, 2):
        os.dup2(dn, fd)
    resource.setrlimit(resource.RLIMIT_CORE, (0, 0))
    if as_bytes:
        resource.setrlimit(resource.RLIMIT_AS, (as_bytes, as_bytes))
    if init is not None:
        init()
    hard = resource.getrlimit(resource.RLIMIT_CPU)[1]
    while True:
        msg = _recv(rfd)
        if msg is None:
            os._exit(0)
        x = msg
        call_cpu = cpu_s
        if isinstance(msg, dict) and "__sandbox_cpu_s__" in msg:      # a per-call budget (see Sandbox.run)
            call_cpu, x = msg["__sandbox_cpu_s__"], msg["x"]
        cpu0 = _cpu_now()
        if call_cpu:
            resource.setrlimit(resource.RLIMIT_CPU, (int(cpu0) + int(call_cpu) + 1, hard))
        rss0 = resource.getrusage(resource.RUSAGE_SELF).ru_maxrss
        t0 = time.perf_counter()
        try:
            val = fn(x)
            out = {"outcome": "ok", "cls": None, "detail": None, "value": val}
        except BaseException as e:  # noqa -- SystemExit / KeyboardInterrupt are outcomes too
            out = {"outcome": "exc", "cls": type(e).__name__, "detail": str(e)[:300], "value": None,
                   "module": type(e).__module__}
        out["wall_s"] = time.perf_counter() - t0
        out["cpu_s"] = _cpu_now() - cpu0
        rss1 = resource.getrusage(resource.RUSAGE_SELF).ru_maxrss
        out["rss_kb"] = rss1
        out["rss_growth_kb"] = rss1 - rss0
        try:
            _send(wfd, out)
        except Exception as e:  # noqa -- unpicklable value
            out["value"] = None
            out["outcome"], out["cls"], out["detail"] = "exc", "SandboxUnpicklable", repr(e)[:300]
            _send(wfd, out)


class Sandbox:
    """One worker.  run(x) never blocks longer than wall_s (+ the time to kill and replace the worker)."""

    def __init__(self, fn, wall_s=10.0, cpu_s=10, as_mb=2048, init=None, persistent=True):
        self.fn, self.wall_s, self.cpu_s, self.as_bytes, self.init = fn, wall_s, cpu_s, as_mb << 20, init
        self.persistent = persistent
        self.pid = None
        self.spawned = 0
        self.replaced = 0
        self._busy_since = None

    # -- life cycle
    def _spawn(self):
        p2c_r, p2c_w = os.pipe()
        c2p_r, c2p_w = os.pipe()
        sys.stdout.flush()
        sys.stderr.flush()
        pid = os.fork()
        if pid == 0:
            try:
                os.close(p2c_w)
                os.close(c2p_r)
                _child_main(self.fn, p2c_r, c2p_w, self.cpu_s, self.as_bytes, self.init)
            finally:
                os._exit(70)
        os.close(p2c_r)
        os.close(c2p_w)
        self.pid, self.wfd, self.rfd = pid, p2c_w, c2p_r
        self.spawned += 1

    def _reap(self, kill):
        """Kill (if asked) and wait for the worker; returns a description of how it ended."""
        if self.pid is None:
            return None
        if kill:
            for target in (lambda: os.killpg(self.pid, signal.SIGKILL), lambda: os.kill(self.pid, signal.SIGKILL)):
                try:
                    target()
                except OSError:
                    pass
        for fd in (self.wfd, self.rfd):
            try:
                os.close(fd)
            except OSError:
                pass
        how = None
        try:
            _, status = os.waitpid(self.pid, 0)
            if os.WIFSIGNALED(status):
                try:
                    how = signal.Signals(os.WTERMSIG(status)).name
                except ValueError:
                    how = f"signal{os.WTERMSIG(status)}"
            elif os.WIFEXITED(status):
                how = f"exit{os.WEXITSTATUS(status)}"
        except ChildProcessError:
            how = "gone"
        self.pid = None
        return how

    def close(self):
        if self.pid is not None:
            try:
                os.close(self.wfd)       # EOF: the worker leaves its loop
            except OSError:
                pass
            self.wfd = -1
            t0 = time.time()
            while time.time() - t0 < 1.0:
                try:
                    pid, _ = os.waitpid(self.pid, os.WNOHANG)
                except ChildProcessError:
                    pid = self.pid
                if pid:
                    try:
                        os.close(self.rfd)
                    except OSError:
                        pass
                    self.pid = None
                    return
                time.sleep(0.01)
            self._reap(kill=True)

    # -- asynchronous interface (used by Pool)
    def submit(self, x, cpu_s=None, wall_s=None):
        if self.pid is None:
            self._spawn()
        self._busy_since = time.perf_counter()
        self._call_wall = wall_s
        try:
            _send(self.wfd, x if cpu_s is None else {"__sandbox_cpu_s__": cpu_s, "x": x})
        except (BrokenPipeError, OSError):
            pass                    # the worker is dead: collect() reports it

    def fileno(self):
        return self.rfd

    def deadline(self):
        return self._busy_since + (getattr(self, "_call_wall", None) or self.wall_s)

    def collect(self, timed_out=False):
        """Call when fileno() is readable, or with timed_out=True when the deadline passed."""
        wall = time.perf_counter() - self._busy_since
        self._busy_since = None
        if timed_out:
            self._reap(kill=True)
            self.replaced += 1
            return {"outcome": "timeout", "cls": None, "detail": f"no answer within {self.wall_s}s wall", "value": None,
                    "wall_s": wall, "cpu_s": None, "rss_kb": None, "rss_growth_kb": None}
        try:
            out = _recv(self.rfd)
        except Exception as e:  # noqa -- truncated / undecodable answer
            out = None
            self._last_err = repr(e)
        if out is None:
            how = self._reap(kill=True)
            self.replaced += 1
            return {"outcome": "killed", "cls": how, "detail": "worker terminated abnormally", "value": None,
                    "wall_s": wall, "cpu_s": None, "rss_kb": None, "rss_growth_kb": None}
        if not self.persistent or (out["outcome"] == "exc" and out["cls"] in RESPAWN_AFTER):
            self._reap(kill=True)
        return out

    # -- synchronous interface
    def run(self, x, cpu_s=None, wall_s=None):
        """cpu_s / wall_s: budget of THIS call when it differs from the worker's default (e.g. scaled with the input)"""
        self.submit(x, cpu_s=cpu_s, wall_s=wall_s)
        remaining = wall_s or self.wall_s
        while True:
            try:
                r, _, _ = select.select([self.rfd], [], [], max(0.0, remaining))
            except InterruptedError:
                r = []
            if r:
                return self.collect()
            remaining = self.deadline() - time.perf_counter()
            if remaining <= 0:
                return self.collect(timed_out=True)


class Pool:
    """n workers; map() keeps all of them busy and returns the outcomes in input order."""

    def __init__(self, fn, n=4, **kw):
        self.workers = [Sandbox(fn, **kw) for _ in range(n)]

    def map(self, items):
        items = list(items)
        out = [None] * len(items)
        idle = list(self.workers)
        busy = {}
        nxt = 0
        while nxt < len(items) or busy:
            while idle and nxt < len(items):
                w = idle.pop()
                w.submit(items[nxt])
                busy[w] = nxt
                nxt += 1
            now = time.perf_counter()
            wait = max(0.0, min(w.deadline() for w in busy) - now)
            try:
                ready, _, _ = select.select(list(busy), [], [], wait)
            except InterruptedError:
                ready = []
            now = time.perf_counter()
            for w in list(busy):
                if w in ready:
                    out[busy.pop(w)] = w.collect()
                    idle.append(w)
                elif w.deadline() <= now:
                    out[busy.pop(w)] = w.collect(timed_out=True)
                    idle.append(w)
        return out

    def close(self):
        for w in self.workers:
            w.close()

    @property
    def replaced(self):
        return sum(w.replaced for w in self.workers)


def classify(o, allowed_exceptions=()):
    """ok | <allowed exception class> | other:<class> | timeout | killed:<how>"""
    if o["outcome"] == "ok":
        return "ok"
    if o["outcome"] == "exc":
        return o["cls"] if o["cls"] in allowed_exceptions else "other:" + str(o["cls"])
    if o["outcome"] == "timeout":
        return "timeout"
    return "killed:" + str(o["cls"])
