"""C19 -- malformed templates are rejected cleanly."""
import copy
import json
import random

import core
import resgen
import robgen
import sandbox
import wire

ID = "C19"
TABLES = ["functions", "schema"]
EXTRA_TARGETS = ["theories/Resolver/GenChecks.vo", "theories/Findings/F11F13.vo", "theories/Findings/F26.vo"]
GEN_OBLIGATIONS = ["GenChecks.functions_table_ok (IMPLEMENTED_FUNCTIONS = the names check_if_valid_function accepts)"]
BUDGET = {"quick": (6, 75), "thorough": (16, 780)}
WALL_S, CPU_S, AS_MB = 8.0, 8, 2048
SAFE_DEPTH = 40          # nesting depth of the main streams (known finding F17 starts far above: ~326 objects / ~950 arrays)
DEEP_DEPTHS = [200, 300, 330, 400, 700, 1000, 3000]
# resource bound of one parse call as a function of the input size (nodes + characters, robgen.size_of): generous constants,
# what matters is that no input of bounded size runs away (the sandbox turns that into timeout / killed)
WALL_BUDGET = lambda size: 1.0 + size * 100e-6      # noqa: E731  seconds
RSS_BUDGET_KB = lambda size: 96 * 1024 + size * 2    # noqa: E731  growth of the peak RSS

RULE = ("(a) every custom validator of pycfmodel, called directly and through its public entry point (parse of a one-resource template, "
        "GenericResource / FunctionDict / Generic / Statement / Tag / StatementCondition.model_validate) on arbitrary JSON values of every "
        "kind (null, booleans, ints incl. 10^30, floats, biased and non-ASCII text, base64 text, lists, objects with 0/1/2 keys incl. function "
        "names): the model must predict the returned value (direct calls) or the outcome class model / ValidationError / other exception "
        "(entry points) exactly.  (b) whole-parse fuzzing in the sandbox: 14 structure-aware mutations of valid templates (swap container "
        "kinds, replace any node by any scalar / list / object, non-string Type, ill-typed condition values, unknown sections, wide CIDR lists "
        "inside invalid modelled resources, huge ints, 100 000-character strings, ...; 1-3 mutations each) + a random JSON stream biased to "
        f"CloudFormation / IAM key names, nesting <= {SAFE_DEPTH}; allowed outcomes: model, ValidationError -- within "
        "wall <= 1 s + 100 us * size and peak-RSS growth <= 96 MB + 2 kB * size (size = nodes + characters).  (c) deep nesting "
        "(known finding F17), separate stream.  (d) histories: ONE long-lived worker process parses 60 (quick) / 400 (thorough) small templates "
        "per kind, each holding 40 strings / keys / numbers / dates / addresses / JSON texts / function objects the process has never seen (8 kinds), in generic, "
        "typed and metadata positions: the 5000th template of a process must fare like the first.  non-trivial = the input is not a valid template (stream b: the mutated template is rejected "
        "or differs from its seed; stream a: the value is not accepted by the field); distinct by hash of (surface, input).")
ASSUMPTIONS = [
    "time, memory, process death, the interpreter's recursion limit and pydantic-core's own validators are RUNTIME: observed in the sandbox "
    "(partial); what is proved is that every custom validator of pycfmodel turns every bad input into ValueError (C19_validators_clean) and that "
    "pydantic converts exactly that into ValidationError (C19_pydantic_contract)",
    "JSON object keys are strings: a Python dict with a non-string key (StatementCondition.remove_colon would raise AttributeError from "
    "key.replace) cannot come from json.load and is outside the quantifier",
    "str.lower / str.capitalize are modelled on ASCII; no non-ASCII code point lower-cases into a letter of true/false/allow/deny except "
    "U+212A KELVIN SIGN -> k, which none of the four words contains (checked over all of Unicode by extra_checks)",
    "LooseIPv4Network / LooseIPv6Network delegate to ipaddress (leaf oracle): every rejection there is AddressValueError / NetmaskValueError, "
    "subclasses of ValueError; exercised by streams (a) and (b), not modelled",
    f"inputs nested deeper than {SAFE_DEPTH} belong to the deep-nesting stream: RecursionError above ~326 nested objects is known finding F17",
]
MODELLED = ("the custom validators (Robust/Validators.v, incl. a Gallina base64 decoder equal to binascii.a2b_base64's non-strict mode) are "
            "modelled by hand and tied by running both on arbitrary values; pydantic's standard acceptance rules used by the field-level "
            "compositions (str, Optional, Union left-to-right, coerce_numbers_to_str) are restated, not derived; whole-parse has no model: "
            "the allowed outcome set {model, ValidationError} is what the theorems justify")
TRUSTED_EXTRA = ["harness/sandbox.py (fork + setrlimit + process group + wall-clock kill); ru_maxrss as the memory observable"]

_SB = []


def modelled():
    return robgen.modelled_types()


# ---------------------------------------------------------------------------------------------------
# what runs inside the sandbox worker

class HelperGone(Exception):
    """a PRIVATE helper of the library that the direct surfaces call by name is no longer there (renamed / inlined / moved by a
    refactoring): nothing a user relies on -- the same validators stay covered through the public entry points (EntrySurface)"""


def _direct_table():
    """private validators called as plain functions.  Each is looked up on its own: a name that a refactoring removed makes THAT
    direct surface vacuous (HelperGone, counted as outside the model's domain and named in the evidence), never the whole check."""
    import importlib

    def get(path, wrap=None):
        mod, _, attrs = path.partition(":")
        try:
            obj = importlib.import_module(mod)
            for a in attrs.split("."):
                obj = getattr(obj, a)
        except Exception:   # noqa
            return None
        return wrap(obj) if wrap else obj
    G = "pycfmodel.model.generic"
    return {
        "not_from_numbers": get(G + ":_not_from_numbers"),
        "not_from_booleans": get(G + ":_not_from_booleans"),
        "validate_binary": get("pycfmodel.model.types:validate_binary"),
        "SemiStrictBool": get("pycfmodel.model.types:SemiStrictBool"),
        "remove_colon": get("pycfmodel.model.resources.properties.statement_condition:StatementCondition.remove_colon"),
        "json_prepass": get(G + ":_Auxiliar.validate_string_property_formatted_as_json"),
        "tag_coerce": get("pycfmodel.model.resources.properties.tag:Tag.coerce_bools_to_strings"),
        "effect": get("pycfmodel.model.resources.properties.statement:Statement.allowed_values_for_effect_and_capitalized"),
        "check_type": get("pycfmodel.model.resources.generic_resource:GenericResource.check_type", lambda f: (lambda v: f(v, None))),
        "check_fn_dict": get("pycfmodel.model.base:FunctionDict.check_if_valid_function"),
        "generic_casting": get(G + ":Generic.casting", lambda f: (lambda v: f(v) and None)),
        "expand_actions_dispatch": get("pycfmodel.action_expander:_expand_actions", lambda f: (lambda v: f(v) and None)),
    }


def _policy(cond):
    return {"Type": "AWS::IAM::Policy", "Properties": {"PolicyName": "p", "PolicyDocument": {"Version": "2012-10-17", "Statement": [
        {"Effect": "Allow", "Action": "s3:GetObject", "Resource": "*", "Condition": cond}]}}}


def _entry_table():
    import pycfmodel
    from pycfmodel.model.base import FunctionDict
    from pycfmodel.model.generic import Generic
    from pycfmodel.model.resources.generic_resource import GenericResource
    from pycfmodel.model.resources.properties.statement import Statement
    from pycfmodel.model.resources.properties.statement_condition import StatementCondition
    from pycfmodel.model.resources.properties.tag import Tag
    P = pycfmodel.parse
    return {
        "parse:Type": lambda v: P({"Resources": {"R": {"Type": v}}}),
        "GenericResource:Type": lambda v: GenericResource.model_validate({"Type": v}),
        "parse:IAM.BinaryEquals": lambda v: P({"Resources": {"R": _policy({"BinaryEquals": {"aws:k": v}})}}),
        "parse:generic.BinaryEquals": lambda v: P({"Resources": {"R": {"Type": "Custom::X", "Properties": {"C": {"BinaryEquals": {"aws:k": v}}, "L": [{"Condition": {"BinaryEquals": {"k": v}}}]}}}}),
        "StatementCondition:BinaryEquals": lambda v: StatementCondition.model_validate({"BinaryEquals": {"k": v}}),
        "StatementCondition:Bool": lambda v: StatementCondition.model_validate({"ForAnyValue:Bool": {"k": v}}),
        "FunctionDict": FunctionDict.model_validate,
        "parse:BucketName": lambda v: P({"Resources": {"R": {"Type": "AWS::S3::Bucket", "Properties": {"BucketName": v}}}}),
        "Statement:Effect": lambda v: Statement.model_validate({"Effect": v, "Action": "s3:GetObject", "Resource": "*"}),
        "parse:Effect": lambda v: P({"Resources": {"R": {"Type": "AWS::IAM::Policy", "Properties": {
            "PolicyName": "p", "PolicyDocument": {"Statement": [{"Effect": v, "Action": "s3:GetObject", "Resource": "*"}]}}}}}),
        "Tag:Value": lambda v: Tag.model_validate({"Key": "k", "Value": v}),
        "Generic": Generic.model_validate,
        "parse:Properties": lambda v: P({"Resources": {"R": {"Type": "Custom::X", "Properties": v}}}),
        "StatementCondition": StatementCondition.model_validate,
        "parse:CidrIp": lambda v: P({"Resources": {"R": {"Type": "AWS::EC2::SecurityGroupIngress", "Properties": {"IpProtocol": "tcp", "GroupId": "g", "CidrIp": v}}}}),
        "parse:AWSTemplateFormatVersion": lambda v: P({"AWSTemplateFormatVersion": v, "Resources": {}}),
        "parse:PolicyDocument.Version": lambda v: P({"Resources": {"R": {"Type": "AWS::IAM::Policy", "Properties": {"PolicyName": "p", "PolicyDocument": {
            "Version": v, "Statement": [{"Effect": "Allow", "Action": "s3:GetObject", "Resource": "*"}]}}}}}),
        "parse:DateLessThan": lambda v: P({"Resources": {"R": _policy({"DateLessThan": {"aws:CurrentTime": v}})}}),
        "parse:NumericEquals": lambda v: P({"Resources": {"R": _policy({"NumericEquals": {"s3:max-keys": v}})}}),
        "parse:IpAddress": lambda v: P({"Resources": {"R": _policy({"IpAddress": {"aws:SourceIp": v}})}}),
        "parse": P,
    }


_TABLES = {}


def _worker(msg):
    from pydantic import ValidationError
    kind, name, v = msg
    if "d" not in _TABLES:
        _TABLES["d"], _TABLES["e"] = _direct_table(), _entry_table()
    if kind == "direct":
        f = _TABLES["d"][name]
        if f is None:
            raise HelperGone(name)
        return resgen.to_wire(f(v))
    if kind == "deep":
        v = deep_template(v)          # built inside the worker: pickling a 3000-deep value would overflow the harness' own stack
    if kind == "history":
        # a long-lived process: many templates, one after the other, each full of content the process has never seen
        for k, t in enumerate(history_templates(v)):
            try:
                _TABLES["e"][name](t)
            except ValidationError:
                pass
            except Exception as e:
                raise type(e)(f"template #{k} of the history: {e}") from None
        return "model"
    try:
        _TABLES["e"][name](v)
        return "model"
    except ValidationError:
        return "ValidationError"


def _init():
    import logging
    import warnings
    logging.disable(logging.CRITICAL)
    warnings.simplefilter("ignore")


def sb():
    if not _SB:
        _SB.append(sandbox.Sandbox(_worker, wall_s=WALL_S, cpu_s=CPU_S, as_mb=AS_MB, init=_init))
    return _SB[0]


def close_sandboxes():
    for s in _SB + globals().get("_SBH", []):
        s.close()
    _SB.clear()
    globals().get("_SBH", []).clear()


def to_impl(o):
    if o["outcome"] == "ok":
        return ("OK", o["value"])
    if o["outcome"] == "exc":
        return ("EXC", core.EXC_KIND.get(o["cls"], "EOther:" + str(o["cls"])), o["cls"], o.get("detail"))
    if o["outcome"] == "timeout":
        return ("EXC", "TIMEOUT", "Timeout", o.get("detail"))
    return ("EXC", "KILLED:" + str(o["cls"]), "Killed", o.get("detail"))


class _Slow:
    """shared by the sandboxed surfaces: do not shrink a case whose failure is a hang or a kill (each candidate costs the wall limit)"""
    last = None

    @property
    def shrinkable(self):
        return not (self.last and self.last[0] == "EXC" and (self.last[1] == "TIMEOUT" or str(self.last[1]).startswith("KILLED")))


def value_tags(v):
    t = {type(v).__name__}
    if isinstance(v, dict):
        t.add(f"keys:{min(len(v), 3)}")
        if len(v) == 1 and next(iter(v)) in robgen.FUNCS:
            t.add("fn-dict")
    if isinstance(v, list) and v:
        t.add("list-of:" + type(v[0]).__name__)
    return t


class DirectSurface(_Slow, core.Surface):
    """a custom validator called as a plain function: the model predicts the returned value or the exception class"""

    def __init__(self, key, op, theorem, value=True, ann=None, args=None):
        self.key, self.op, self.value, self.ann, self.args = key, op, value, ann, args
        self.name = f"{key}(v)  [custom validator, direct call]"
        self.theorem = theorem

    def impl(self, x):
        self.last = to_impl(sb().run(("direct", self.key, copy.deepcopy(x["v"]))))
        self.gone = self.last[0] == "EXC" and "HelperGone" in str(self.last)
        if self.last[0] == "OK" and not self.value:
            return ("OK", None)
        return self.last

    def model(self, rn, x):
        if getattr(self, "gone", False):
            core.note(ID, f"private helper behind the direct surface {self.key!r} is no longer there (refactored away?): that surface ran "
                          "no comparison; the validator stays covered through the public entry points")
            return ("EXC", "EUndefined", "")
        v = resgen.to_wire(x["v"])
        arg = self.args(v) if self.args else [v]
        if self.ann:
            arg = arg + [self.ann(x["v"])]
        r = core.model_res(rn.call(self.op, arg))
        return ("OK", None) if (r[0] == "OK" and not self.value) else r

    def tags(self, x):
        return value_tags(x["v"]) | {"direct"}

    def nontrivial(self, x, i, m):
        return i[0] == "EXC" or (self.value and core.canon(i[1]) != core.canon(resgen.to_wire(x["v"])))


class EntrySurface(_Slow, core.Surface):
    """a validator reached through a public entry point: the model predicts model / ValidationError / other exception"""

    def __init__(self, key, op, theorem, args=None, exact=True, optional=False):
        self.key, self.op, self.args, self.exact, self.optional = key, op, args, exact, optional
        self.name = f"{key} <- v  [public entry point]"
        self.theorem = theorem

    def impl(self, x):
        self.last = to_impl(sb().run(("entry", self.key, copy.deepcopy(x["v"]))))
        return self.last

    def model(self, rn, x):
        v = resgen.to_wire(x["v"])
        if self.op is None:
            return ("OK", "clean")
        if self.optional and v is None:
            return ("OK", "model")             # Optional[...]: None is the default
        r = core.model_res(rn.call(self.op, self.args(v) if self.args else [v]))
        if r[0] == "OK":
            return ("OK", "model")
        if r[1] == "EValidation":
            return ("OK", "ValidationError")
        return r

    def agree(self, x, i, m):
        if i[0] != "OK":
            return False                         # any other exception, a hang or a kill is never predicted
        if m[0] != "OK":
            return False
        if m[1] == "clean" or not self.exact_for(x):
            return True
        return i[1] == m[1]

    def exact_for(self, x):
        if self.key == "parse:Type" and isinstance(x["v"], str) and x["v"] in modelled():
            return False        # a modelled type is validated by its own class first (not by GenericResource.check_type)
        return self.exact

    def tags(self, x):
        return value_tags(x["v"]) | {"entry"}

    def nontrivial(self, x, i, m):
        return i[0] == "EXC" or i[1] == "ValidationError"


def float_ann(v):
    out = {}
    for item in (v if isinstance(v, list) else [v]):
        if isinstance(item, str):
            try:
                float(item)
                out[item] = True
            except ValueError:
                out[item] = False
    return out


def json_ann(v):
    if isinstance(v, str):
        try:
            return [resgen.to_wire(json.loads(v))]
        except Exception:  # noqa -- exactly the clause of the code under test
            return []
    return []


T_CLEAN = "C19_validators_clean"
DIRECT = [
    DirectSurface("validate_binary", 1902, T_CLEAN + " (validate_binary; Gallina b64decode = base64.b64decode)"),
    DirectSurface("SemiStrictBool", 1903, T_CLEAN + " (semi_strict_bool)"),
    DirectSurface("remove_colon", 1907, "C19_hooks_never_raise (remove_colon)"),
    DirectSurface("json_prepass", 1906, T_CLEAN + " / C19_json_prepass_refuses_only_empty (json_prepass; json.loads is an oracle)", ann=json_ann),
    DirectSurface("not_from_numbers", 1921, T_CLEAN + " (not_from_numbers; float() is an oracle)", ann=float_ann),
    DirectSurface("not_from_booleans", 1922, T_CLEAN + " (not_from_booleans)"),
    DirectSurface("tag_coerce", 1909, "C19_hooks_never_raise (tag_coerce)"),
    DirectSurface("effect", 1908, T_CLEAN + " (effect_validator)"),
    DirectSurface("check_type", 1901, T_CLEAN + " (check_type)", args=lambda v: [True, modelled(), v]),
    DirectSurface("check_fn_dict", 1904, T_CLEAN + " (check_fn_dict)"),
    DirectSurface("generic_casting", 1905, T_CLEAN + " (generic_casting)", value=False),
    DirectSurface("expand_actions_dispatch", 1910, T_CLEAN + " (expand_acts)", value=False, args=lambda v: [False, v]),
]
T_FIELDS = "C19_fields_clean"
ENTRY = [
    EntrySurface("parse:Type", 1911, T_FIELDS + " (type_field)", args=lambda v: [True, modelled(), v]),
    EntrySurface("GenericResource:Type", 1911, T_FIELDS + " (type_field)", args=lambda v: [True, modelled(), v]),
    EntrySurface("parse:IAM.BinaryEquals", 1912, T_FIELDS + " (binary_field)"),
    EntrySurface("StatementCondition:BinaryEquals", 1912, T_FIELDS + " (binary_field)"),
    EntrySurface("parse:generic.BinaryEquals", None, T_FIELDS + " (generic_field: a generic resource accepts any object)"),
    EntrySurface("StatementCondition:Bool", 1913, T_FIELDS + " (bool_field)"),
    EntrySurface("FunctionDict", 1916, T_FIELDS + " (fn_dict_field)"),
    EntrySurface("parse:BucketName", 1918, T_FIELDS + " (resolvable std_str under Optional)", optional=True),
    EntrySurface("Statement:Effect", 1914, T_FIELDS + " (effect_field)"),
    EntrySurface("parse:Effect", 1914, T_FIELDS + " (effect_field)"),
    EntrySurface("Tag:Value", 1915, T_FIELDS + " (tag_value_field)"),
    EntrySurface("Generic", 1917, T_FIELDS + " (generic_field)"),
    EntrySurface("parse:Properties", 1919, T_FIELDS + " (generic_field under Optional)"),
    EntrySurface("StatementCondition", None, "C19_hooks_never_raise (remove_colon on any value)"),
    EntrySurface("parse:CidrIp", None, "C19_pydantic_contract (LooseIPv4Network: ipaddress raises ValueError subclasses)"),
    EntrySurface("parse:IpAddress", None, "C19_pydantic_contract (LooseIPv4/6Network under InstanceOrListOf)"),
    EntrySurface("parse:AWSTemplateFormatVersion", None, "C19 outcome set (pydantic date field)"),
    EntrySurface("parse:PolicyDocument.Version", None, "C19 outcome set (ResolvableDate)"),
    EntrySurface("parse:DateLessThan", None, "C19 outcome set (ResolvableDatetimeOrList)"),
    EntrySurface("parse:NumericEquals", None, "C19 outcome set (ResolvableIntOrList)"),
]


class FuzzSurface(_Slow, core.Surface):
    name = "sandbox: pycfmodel.parse(t) on mutated / random JSON"
    theorem = "C19_validators_clean + C19_pydantic_contract (outcome class of parse is model or ValidationError); time / memory measured"
    frozen = frozenset({"mut", "seed_valid"})

    def impl(self, x):
        o = sb().run(("entry", "parse", copy.deepcopy(x["t"])))
        self.last = to_impl(o)
        if self.last[0] == "OK":
            size = robgen.size_of(x["t"])
            if o["wall_s"] > WALL_BUDGET(size) or (o["rss_growth_kb"] or 0) > RSS_BUDGET_KB(size):
                # a loaded machine can make one measurement meaningless: measure again in a FRESH worker (its peak RSS starts from
                # the baseline) and report only what both measurements show
                fresh = sandbox.Sandbox(_worker, wall_s=WALL_S, cpu_s=CPU_S, as_mb=AS_MB, init=_init, persistent=False)
                try:
                    o2 = fresh.run(("entry", "parse", copy.deepcopy(x["t"])))
                finally:
                    fresh.close()
                if o2["outcome"] != "ok":
                    self.last = to_impl(o2)
                elif min(o["wall_s"], o2["wall_s"]) > WALL_BUDGET(size):
                    self.last = ("EXC", "OVER-TIME", "Budget", f"{o['wall_s']:.2f}s and {o2['wall_s']:.2f}s for size {size}")
                elif (o["rss_growth_kb"] or 0) > RSS_BUDGET_KB(size) and (o2["rss_growth_kb"] or 0) > RSS_BUDGET_KB(size):
                    self.last = ("EXC", "OVER-MEMORY", "Budget", f"{o['rss_growth_kb']} kB and {o2['rss_growth_kb']} kB for size {size}")
        return self.last

    def model(self, rn, x):
        return ("OK", "clean")

    def agree(self, x, i, m):
        return i[0] == "OK"

    def tags(self, x):
        return {"fuzz", "mut:" + str(x.get("mut"))}

    def nontrivial(self, x, i, m):
        return i[0] == "EXC" or i[1] == "ValidationError" or not x.get("seed_valid")


def nested(shape, depth, leaf="x"):
    v = leaf
    for _ in range(depth):
        v = [v] if shape == "list" else {"a": v}
    return v


def deep_template(x):
    v = nested(x["shape"], x["depth"])
    w = x["where"]
    if w == "generic-property":
        return {"Resources": {"R": {"Type": "Custom::X", "Properties": {"P": v}}}}
    if w == "typed-property":
        return {"Resources": {"R": {"Type": "AWS::S3::Bucket", "Properties": {"BucketName": v}}}}
    if w == "generic-block-of-modelled":
        return {"Resources": {"R": {"Type": "AWS::S3::Bucket", "Properties": {"LifecycleConfiguration": {"Rules": v}}}}}
    if w == "json-text":
        return {"Resources": {"R": {"Type": "Custom::X", "Properties": {"P": json.dumps(nested("list", min(x["depth"], 900)))}}}}
    return {"Metadata": {"m": v}, "Resources": {}}


class DeepSurface(core.Surface):
    """deep nesting: the input is a DESCRIPTION (shape, where, depth) so that the shrinker lowers the depth (integers are halved)"""
    name = "sandbox: pycfmodel.parse(deeply nested template)"
    theorem = FuzzSurface.theorem
    frozen = frozenset({"shape", "where"})
    shrinkable = True

    def impl(self, x):
        return to_impl(sb().run(("deep", "parse", dict(x))))

    def model(self, rn, x):
        return ("OK", "clean")

    def agree(self, x, i, m):
        return i[0] == "OK"

    def tags(self, x):
        return {"deep-nesting"} if x["depth"] > SAFE_DEPTH else {"nesting"}

    def nontrivial(self, x, i, m):
        return True


FUZZ, DEEP = FuzzSurface(), DeepSurface()
SURFACES = {s.name: s for s in DIRECT + ENTRY + [FUZZ, DEEP]}


# ---------------------------------------------------------------------------------------------------
# generators

BOUNDARY = ["0000-01-01", "0000-12-31T23:59:59Z", "0001-01-01", "9999-12-31", "10000-01-01", "2020-02-30", "0001-01-01T00:00:00+23:59", "9999-12-31T23:59:59-23:59",
            "-0001-01-01", "20200101", "2020-01-01T25:00:00Z", "253402300800", "-62135596801", "1e400", "inf", "nan", "Infinity", "1_000", "0x10", "１２３", "1.0", " 5", "+5",
            "10.0.0.0/33", "10.0.0.0/255.0.0.0", "10.0.0.0/0.255.255.255", "01.2.3.4", "::/129", "fe80::1%eth0/64", "::ffff:10.0.0.0/104", "4294967296", "1.2.3"]
BOUNDARY_NUM = [253402300800, -62135596801, 2 ** 32, 2 ** 128, -1, 1e308, float("inf"), float("-inf"), 2 ** 63, -2 ** 63 - 1, 1.0, 253402300800000]
B64ISH = ["YWJj", "YQ==", "YQ=", "YQ", "Y", "====", "=", "Y=Q=", "YQ==YQ==", "YW Jj", "YW\nJj", "YWJj!", "-_-_", "AAAA", "/+8=", "é", "YWJjé", "", "A" * 4001,
          "QmluYXJ5VmFsdWVJbkJhc2U2NA==", "a" * 5, "ab=c=", "abc=d", "ab==cd", "=abc", "a=bc", "\x00YQ==", "YQ==\x00"]


# ordinary-looking long type / logical names ending in a character that is not a word character: the shapes on which a nested-quantifier
# regex such as ^(\w+(::)?)+$ backtracks exponentially (seeded change C19-r5m2; its detection had depended on a lucky draw)
LONG_NAMES = ["Custom::CrossAccountCertificateValidationRequestor-v2", "Custom::S3BucketNotificationsConfigurationHandler@1",
              "AWS::" + "A" * 48 + " ", "Custom::" + "a1_" * 16 + ".", "Organization::Service::" + "Resource" * 6 + ":", "x" * 64 + "-",
              "Custom::" + "Ab" * 30 + "::" + "Cd" * 30 + "!"]


def any_value(rng):
    k = rng.random()
    if k < 0.24:
        return robgen.scalar(rng)
    if k < 0.3:
        return rng.choice(BOUNDARY) if rng.random() < 0.75 else rng.choice(BOUNDARY_NUM)
    if k < 0.42:
        return rng.choice(B64ISH)
    if k < 0.5:
        return rng.choice(["a:b", "::", "ForAnyValue:StringLike", "aLLOW", "DENY", "allow ", "ALLOW", "dENY", "Deny", "İ", "ﬁ", "ǅ", "ß", "true ", " true", "TrUe", "FALSE",
                           "yes", "1", "0", "[1, 2", "null", "NaN", "1e400", "\"s\"", "{\"Ref\": \"x\"}", "[" * 30 + "]" * 30])
    if k < 0.62:
        return [any_value(rng) for _ in range(rng.choice([0, 1, 1, 2, 3]))] if rng.random() < 0.7 else [rng.choice(B64ISH) for _ in range(rng.randint(1, 3))]
    if k < 0.8:
        n = rng.choice([0, 1, 1, 1, 2, 2, 3])
        keys = rng.sample(robgen.FUNCS + ["a:b", "ab", "a::b", "x", "Type", "Ref ", "ref", "Fn::Unknown", ":", ""], n)
        return {key: any_value(rng) if rng.random() < 0.5 else robgen.scalar(rng) for key in keys}
    if k < 0.9:
        return rng.choice(modelled() + ["AWS::S3::bucket", "Custom::X", "AWS::CloudFormation::Authentication"] + LONG_NAMES)
    return robgen.rand_json(rng, 3)


def history_templates(x):
    """the templates of one history (deterministic in x): `n` small templates whose generic and typed-but-open positions hold
    `per` strings / keys / numbers each that no earlier template of this process contained"""
    rng = random.Random(x["seed"])
    alphabet = "abcdefghijklmnopqrstuvwxyzABCDEFGHIJKLMNOPQRSTUVWXYZ0123456789-_/:. "

    seen = []

    def fresh(j):
        # mostly never-seen content, but real workloads also repeat themselves: one value in five is one that this history
        # already used (recently, or long ago) -- added after seeded change C19-r3m2 (a most-recently-used memo whose
        # bookkeeping breaks when a remembered string comes back)
        if seen and rng.random() < 0.2:
            return rng.choice(seen[-40:] if rng.random() < 0.5 else seen)
        v = fresh_value(j)
        if isinstance(v, (str, int)):
            seen.append(v)
        return v

    def fresh_value(j):
        kind = x["kind"]
        tok = "".join(rng.choice(alphabet) for _ in range(rng.randint(3, 18))) + f"{x['seed']}x{j}"
        if kind == "text":
            return tok
        if kind == "arn":
            return f"arn:aws:s3:::{tok.replace(' ', '')}/*"
        if kind == "json-text":
            return json.dumps({tok: [j, tok]})
        if kind == "number-text":
            return str(rng.randrange(10 ** 12) * 1000 + j)
        if kind == "number":
            return rng.randrange(10 ** 12) * 1000 + j
        if kind == "date-text":
            return f"{1000 + (j * 7 + rng.randrange(7)) % 8999:04d}-{rng.randint(1, 12):02d}-{rng.randint(1, 28):02d}"
        if kind == "ip-text":
            return f"{rng.randint(1, 223)}.{rng.randint(0, 255)}.{(j >> 8) & 255}.{j & 255}/32"
        return {"Ref": tok}
    j = 0
    for k in range(x["n"]):
        props, md, tags = {}, {}, []
        for _ in range(x["per"]):
            j += 1
            where = rng.random()
            if where < 0.5:
                props[f"P{j}"] = fresh(j)
            elif where < 0.65:
                props.setdefault("L", []).append(fresh(j))
            elif where < 0.8:
                props.setdefault("D", {})[f"k{j}"] = {"n": [fresh(j)]}
            elif where < 0.9:
                md[f"m{j}"] = fresh(j)
            else:
                tags.append({"Key": f"t{j}", "Value": fresh(j)})
        res = {f"Q{k}": {"Type": rng.choice(["AWS::SQS::Queue", "Custom::Thing", "AWS::Lambda::Function"]), "Properties": props, "Metadata": md},
               f"B{k}": {"Type": "AWS::S3::Bucket", "Properties": {"BucketName": fresh(j) if x["kind"] in ("text", "fn") else f"b{j}", "Tags": tags}},
               f"P{k}": {"Type": "AWS::IAM::ManagedPolicy", "Properties": {"PolicyDocument": {"Statement": [{
                   "Effect": "Allow", "Action": [f"s3:Get{j}"], "Resource": [fresh(j) if x["kind"] in ("text", "arn", "fn") else f"r{j}"],
                   "Condition": {"StringLike": {f"aws:k{j}": [fresh(j)]}} if x["kind"] in ("text", "arn", "number-text", "date-text", "ip-text") else {"Bool": {"aws:SecureTransport": "true"}}}]}}}}
        yield {"Resources": res, "Parameters": {f"Par{j}": {"Type": "String", "Default": fresh(j) if x["kind"] != "fn" else "d"}},
               "Outputs": {f"O{j}": {"Value": fresh(j)}}}


class HistorySurface(_Slow, core.Surface):
    """state that outlives one call: the property speaks of ANY input, so also of the 5000th template a process parses"""
    name = "sandbox: one process, pycfmodel.parse over a history of templates with never-seen-before content"
    theorem = "C19_validators_clean + C19_pydantic_contract (validators are functions of their argument: no hypothesis on process history)"
    frozen = frozenset({"seed", "kind"})

    def impl(self, x):
        o = sandbox_history().run(("history", "parse", dict(x)))
        self.last = to_impl(o)
        return self.last

    def model(self, rn, x):
        return ("OK", "clean")

    def agree(self, x, i, m):
        return i[0] == "OK"

    def tags(self, x):
        return {"history", "kind:" + x["kind"]}

    def nontrivial(self, x, i, m):
        return x["n"] * x["per"] >= 1000


_SBH = []


def sandbox_history():
    # its own worker, never respawned between cases on purpose: cases accumulate in one process
    if not _SBH:
        _SBH.append(sandbox.Sandbox(_worker, wall_s=60.0, cpu_s=90, as_mb=AS_MB, init=_init))
    return _SBH[0]


HISTORY = HistorySurface()
SURFACES[HISTORY.name] = HISTORY
HISTORY_KINDS = ["text", "arn", "json-text", "number-text", "number", "date-text", "ip-text", "fn"]


def seed_templates(rng, ops, types, n):
    out = []
    for i in range(n):
        x = robgen.gen_template(rng, rng.randrange(10 ** 6), ops=ops, types=types)
        out.append(x["template"])
    return out


def fuzz_case(rng, seeds):
    k = rng.random()
    if k < 0.7:
        t = rng.choice(seeds)
        muts = []
        for _ in range(rng.choice([1, 1, 2, 3])):
            t, m = robgen.mutate(rng, t)
            muts.append(m)
        x = {"t": t, "mut": "+".join(muts), "seed_valid": True}
    elif k < 0.85:
        x = {"t": robgen.rand_json(rng, 5), "mut": "random-json", "seed_valid": False}
    else:
        where = rng.choice(["Resources", "Parameters", "Conditions", "Mappings", "Outputs", "Metadata", "Rules", "Transform", "Description", "AWSTemplateFormatVersion"])
        t = copy.deepcopy(rng.choice(seeds))
        t[where] = robgen.rand_json(rng, 4) if rng.random() < 0.7 else {rng.choice(["R", "a", ""]): robgen.rand_json(rng, 3)}
        x = {"t": t, "mut": "random-section:" + where, "seed_valid": True}
    if robgen.depth_of(x["t"]) > SAFE_DEPTH:
        return fuzz_case(rng, seeds)
    return x


def corpus():
    p = core.VERIF / "corpus" / "C19.json"
    if p.exists():
        for c in json.loads(p.read_text()):
            yield SURFACES[c["surface"]], wire.unjson(c["input"])


def cases(rng, tier, shard, nshards):
    ops, types = robgen.operator_table(), robgen.modelled_types()
    try:
        if shard == 0:
            yield from corpus()
        import pycfmodel.model.generic as G
        direct = [s for s in DIRECT if not s.key.startswith("not_from_") or hasattr(G, "_" + s.key)]
        seeds = seed_templates(rng, ops, types, 12 if tier == "quick" else 60)
        n = {"quick": 330, "thorough": 11000}[tier]
        for j, kind in enumerate(HISTORY_KINDS):
            if j % nshards == shard or tier == "thorough":
                yield HISTORY, {"seed": rng.randrange(10 ** 6), "kind": kind, "n": 180 if tier == "quick" else 700, "per": 40}   # quick: 7 200 values per history, so ONE process sees well over 4 096 distinct texts plus their repeats (C19-r3m2)
        if shard == 0:
            for v in LONG_NAMES:
                for s in direct + ENTRY:
                    yield s, {"v": v}
        for k in range(n):
            v = any_value(rng)
            for s in direct:
                yield s, {"v": v}
            for s in ENTRY:
                yield s, {"v": v}
            for _ in range(4):
                yield FUZZ, fuzz_case(rng, seeds)
            if k % 10 == 0:
                yield DEEP, {"shape": rng.choice(["dict", "list"]), "where": rng.choice(["generic-property", "typed-property", "metadata", "generic-block-of-modelled", "json-text"]),
                             "depth": rng.choice([1, 5, 20, SAFE_DEPTH])}
        if shard == 0:
            # the deliberate known-finding stream (F17): never part of the main stream
            for d in DEEP_DEPTHS:
                for shape in ("dict", "list"):
                    for where in ("generic-property", "typed-property", "generic-block-of-modelled", "metadata", "json-text"):
                        yield DEEP, {"shape": shape, "where": where, "depth": d}
    finally:
        close_sandboxes()


def reproduce_known(f):
    surf = SURFACES[f["witness"]["surface"]]
    x = wire.unjson(f["witness"]["input"])
    try:
        i = surf.impl(x)
    finally:
        close_sandboxes()
    return i[0] == "EXC" and i[1] == "ERecursion"


def extra_checks(tier, seed, stats, broken):
    out = []
    # (1) the ASCII modelling of lower()/capitalize() is exact for the words the validators test
    words = {"true", "false", "allow", "deny"}
    letters = set("".join(words))
    bad = []
    for cp in range(128, 0x110000):
        c = chr(cp)
        low = c.lower()
        if len(low) == 1 and low in letters:
            bad.append(hex(cp))
        if c.upper() != c and len(c.upper()) == 1 and c.upper() in "AD" and c.title() in "AD":
            bad.append("title:" + hex(cp))
    if bad:
        out.append({"sig": "unicode-case", "surface": "harness", "theorem": "ASCII modelling of str.lower/capitalize", "tags": ["unicode"], "crash": True,
                    "input": f"non-ASCII code points that lower-case into a letter of true/false/allow/deny: {bad[:10]}", "impl": None, "model": None})
    # (2) where deep nesting starts to raise RecursionError on this interpreter (recorded in the evidence)
    thresholds = {}
    s = sandbox.Sandbox(_worker, wall_s=WALL_S, cpu_s=CPU_S, as_mb=AS_MB, init=_init)
    try:
        def probe(shape, depth):
            """'ok' / 'recursion' / 'other' (a time limit or a kill on a loaded machine says nothing about the recursion depth:
            a false alarm of this probe was seen in a run that took six times its usual time)"""
            r = to_impl(s.run(("deep", "parse", {"shape": shape, "where": "generic-property", "depth": depth})))
            if r[0] == "OK":
                return "ok"
            return "recursion" if (r[0] == "EXC" and r[1] == "ERecursion") else "other"
        for shape in ("dict", "list"):
            lo, hi = SAFE_DEPTH, 3000
            top = probe(shape, hi)
            if top == "ok":
                thresholds[shape] = None
                continue
            undetermined = top == "other"
            while hi - lo > 1 and not undetermined:
                mid = (lo + hi) // 2
                got = probe(shape, mid)
                if got == "other":
                    got = probe(shape, mid)        # once more: a transient outcome does not repeat
                if got == "ok":
                    lo = mid
                elif got == "recursion":
                    hi = mid
                else:
                    undetermined = True
            thresholds[shape] = "undetermined (a resource limit, not a RecursionError, ended a probe)" if undetermined else hi
    finally:
        s.close()
    stats.dist["first_depth_raising_RecursionError"] = thresholds
    for shape, th in thresholds.items():
        if isinstance(th, int) and th <= 4 * SAFE_DEPTH:
            out.append({"sig": "depth-margin", "surface": DEEP.name, "theorem": "SAFE_DEPTH margin", "tags": ["deep-nesting-margin"], "crash": True,
                        "input": f"RecursionError already at depth {th} ({shape}); the main stream nests up to {SAFE_DEPTH}", "impl": None, "model": None})
    return out
