"""C03 -- a resolved model is concrete and is a fixed point of resolution."""
import copy
import json

import core
import resgen
import tplgen
import wire

ID = "C03"
TABLES = ["functions"]
EXTRA_TARGETS = ["theories/Resolver/GenChecks.vo"]
GEN_OBLIGATIONS = ["GenChecks.functions_table_ok"]
BUDGET = {"quick": (4, 75), "thorough": (16, 480)}
RULE = ("templates from the C01/C02 generators with functions in rare positions (condition blocks, Principal maps, nested generic lists, Fn::If "
        "branches, tags, metadata) plus unresolvable references; for each: (a) walk of the implementation's resolved object graph (every "
        "field of every pydantic object, extra fields, dict/list members) for FunctionDict instances and single-key function dicts; (b) "
        "m.resolve(p) == m.resolve(p).resolve(p). The model predicts 'no function left' when the theorem's hypotheses hold on the input "
        "(evaluated by the runner) and 'fixed point' when its own output is function-free and rendered; other inputs are counted as undefined. "
        "The fixed-point surface also compares the dump of m.resolve(p).resolve(p) with the MODEL's second round (resolve_model applied to "
        "its own output, op 110), re-validated like the first round. "
        "non-trivial = >= 2 function objects in the template; distinct by input hash.")
ASSUMPTIONS = [
    "second resolution at template level: C03_model_fixed_point (conditions already boolean, gates of kept resources, Type put back) is "
    "proved for resolve_model applied to its own output; the implementation's second round starts from the RE-VALIDATED dump of the "
    "first (pydantic casting in between), which stays with the correspondence: the dump of m.resolve(p).resolve(p) is compared with the "
    "model's second round (op 110) re-validated the same way",
    "inputs outside C03_model_fixed_point's input hypothesis resource_wf (a function object in the place of a whole resource; a resource "
    "gated by a condition whose NAME rendering rewrites, e.g. conditions called True and true) are counted as undefined",
    "outputs that are not in rendered form (text assembled by Fn::Join/Fn::Sub/Fn::Select/Fn::FindInMap that a second pass normalises again) are "
    "outside C03_fixed_point's hypothesis: known finding F20 (and F14b for raw mapping leaves); exercised by a deliberate stream",
]
MODELLED = "see C01; nofnkey / fn_keys_alone / rendered are evaluated by the extracted runner on the model's own output"


def walk_functions(obj, path="", out=None):
    """paths of FunctionDict instances / single-key function dicts in a pydantic object graph"""
    from pydantic import BaseModel
    from pycfmodel.model.base import FunctionDict
    from pycfmodel.utils import is_resolvable_dict
    out = [] if out is None else out
    if isinstance(obj, FunctionDict):
        out.append(path)
        return out
    if isinstance(obj, BaseModel):
        for name in type(obj).model_fields:
            walk_functions(getattr(obj, name), f"{path}.{name}", out)
        for name, v in (obj.__pydantic_extra__ or {}).items():
            walk_functions(v, f"{path}.{name}", out)
    elif isinstance(obj, dict):
        if is_resolvable_dict(obj):
            out.append(path)
            return out
        for k, v in obj.items():
            walk_functions(v, f"{path}[{k!r}]", out)
    elif isinstance(obj, (list, tuple)):
        for i, v in enumerate(obj):
            walk_functions(v, f"{path}[{i}]", out)
    return out


class Concrete(core.Surface):
    name = "function objects left in parse(t).resolve(extra)"
    theorem = "C03_no_function_left / C03_conditions_bool"

    def impl(self, x):
        import pycfmodel

        def run():
            r = pycfmodel.parse(copy.deepcopy(x["template"])).resolve(copy.deepcopy(x["extra"]))
            left = walk_functions(r.Resources, "Resources") + walk_functions(r.Conditions, "Conditions")
            nonbool = [k for k, v in (r.Conditions or {}).items() if not isinstance(v, bool)]
            return {"functions_left": bool(left), "non_bool_conditions": bool(nonbool)}
        i = core.impl_call(run)
        return i

    def model(self, rn, x):
        import pycfmodel
        try:
            m = pycfmodel.parse(copy.deepcopy(x["template"]))
        except Exception:
            return ("EXC", "EUndefined", "")
        args = tplgen.model_args(m, x["extra"], x["template"])
        r = core.model_res(rn.call(102, args))
        if r[0] != "OK":
            return ("EXC", "EUndefined", "")        # failing resolutions: C01/C05
        ps = core.model_res(rn.call(104, args[:3]))
        if ps[0] != "OK":
            return ("EXC", "EUndefined", "")
        hyp = rn.call(108, [ps[1], args[3], args[5]])
        if not all(hyp):
            return ("EXC", "EUndefined", "")        # outside C03_no_function_left's hypotheses (finding F18 territory)
        nofn, _ = rn.call(107, [ps[1], r[1]["Resources"]])
        return ("OK", {"functions_left": not nofn, "non_bool_conditions": False})

    def agree(self, x, i, m):
        if i[0] == "EXC":
            # the implementation rejected the resolved data on re-validation: C05/C15 territory -- unless the template is valid by
            # construction (instances of the live schema): then "resolve() raised" means there is no concrete resolved model at all
            return not x.get("valid")
        return super().agree(x, i, m)

    def tags(self, x):
        return tplgen.E2ESurface.tags(self, x) | {"concrete"}

    def nontrivial(self, x, i, m):
        return i[0] == "OK" and resgen.count_functions(x["template"]) >= 2


class FixedPoint(core.Surface):
    name = "m.resolve(p) == m.resolve(p).resolve(p)"
    theorem = "C03_fixed_point / C03_resolve_twice / C03_model_fixed_point"

    def impl(self, x):
        import pycfmodel

        def run():
            r1 = pycfmodel.parse(copy.deepcopy(x["template"])).resolve(copy.deepcopy(x["extra"]))
            r2 = r1.resolve(copy.deepcopy(x["extra"]))
            d2 = r2.model_dump()
            same = r1 == r2 and r1.model_dump() == d2
            # ... and still equal once the resolved model has been put to use: evaluating the IAM conditions of r1 builds their
            # evaluators lazily, which is not part of the value (seeded change C03-r5m2 compared the private cache too)
            for res in r1.Resources.values():
                try:
                    conds = list(res.all_statement_conditions)
                except Exception:
                    conds = []
                for c in conds:
                    try:
                        c({})
                    except Exception:
                        pass
            same = same and r1 == r2 and r2 == r1 and r1 == r1.resolve(copy.deepcopy(x["extra"]))
            return {"equal": same,
                    "second": {"Conditions": resgen.to_wire(d2["Conditions"]), "Resources": resgen.to_wire(d2["Resources"])}}
        return core.impl_call(run)

    def model(self, rn, x):
        import pycfmodel
        try:
            m = pycfmodel.parse(copy.deepcopy(x["template"]))
        except Exception:
            return ("EXC", "EUndefined", "")
        from pycfmodel.model.cf_model import CFModel
        args = tplgen.model_args(m, x["extra"], x["template"])
        # op 110 = resolve_model, then resolve_model on its own output (Conditions now booleans, kept resources with their
        # Condition attribute), + the boolean hypotheses of C03_model_fixed_point on the first output and on the input
        first, second, hyp_out, hyp_in = rn.call(110, args)
        r = core.model_res(first)
        ps = core.model_res(rn.call(104, args[:3]))
        if r[0] != "OK" or ps[0] != "OK":
            return ("EXC", "EUndefined", "")
        nofn, rend = rn.call(107, [ps[1], r[1]["Resources"]])
        if not (nofn and rend and hyp_out):
            return ("EXC", "EUndefined", "")        # unrendered output: F20 / F14b stream
        if not hyp_in:
            # a function object in the place of a whole resource (or an object with a repeated key)
            return ("EXC", "EUndefined", "")
        r2 = core.model_res(second)
        if r2 != r:
            raise core.ModelError(f"op 110 contradicts C03_model_fixed_point: {r!r} then {r2!r}")
        out = tplgen.from_wire(r2[1])

        def reval():
            # the same re-validation CFModel(**plain) both sides end with (see tplgen.E2ESurface)
            dv = m.model_dump()
            dv.pop("Conditions", None)
            dv.pop("Resources", None)
            d = CFModel(**dv, Conditions=out["Conditions"], Resources=out["Resources"]).model_dump()
            return {"equal": True,
                    "second": {"Conditions": resgen.to_wire(d["Conditions"]), "Resources": resgen.to_wire(d["Resources"])}}
        return core.impl_call(reval)

    def agree(self, x, i, m):
        if i[0] == "EXC":
            return True
        return super().agree(x, i, m)

    def tags(self, x):
        return tplgen.E2ESurface.tags(self, x) | {"fixed-point"}

    def nontrivial(self, x, i, m):
        return i[0] == "OK" and resgen.count_functions(x["template"]) >= 2


class EditedThenResolved(Concrete):
    """history: a function-free model is resolved once, then EDITED IN PLACE (sections of another template assigned into it) and
    resolved again: the second result must be as concrete as a fresh parse of the combined template would give"""
    name = "function objects left after: m.resolve(p); edit m in place; m.resolve(p)"

    BASE = {"Resources": {"Base0": {"Type": "Custom::Plain", "Properties": {"A": "plain", "B": ["x", "y"]}}}}

    @staticmethod
    def combined(x):
        t = copy.deepcopy(x["template"])
        t.setdefault("Resources", {})["Base0"] = copy.deepcopy(EditedThenResolved.BASE["Resources"]["Base0"])
        return t

    def impl(self, x):
        import pycfmodel

        def run():
            m = pycfmodel.parse(copy.deepcopy(self.BASE))
            m.resolve(copy.deepcopy(x["extra"]))
            other = pycfmodel.parse(copy.deepcopy(x["template"]))
            m.Parameters = other.Parameters
            m.Conditions = other.Conditions
            m.Mappings = other.Mappings
            for rid, res in other.Resources.items():
                m.Resources[rid] = res
            r = m.resolve(copy.deepcopy(x["extra"]))
            left = walk_functions(r.Resources, "Resources") + walk_functions(r.Conditions, "Conditions")
            nonbool = [k for k, v in (r.Conditions or {}).items() if not isinstance(v, bool)]
            return {"functions_left": bool(left), "non_bool_conditions": bool(nonbool)}
        return core.impl_call(run)

    def model(self, rn, x):
        return Concrete.model(self, rn, {"template": self.combined(x), "extra": x["extra"]})

    def tags(self, x):
        return Concrete.tags(self, x) | {"edited-in-place"}


CONCRETE, FIXED, EDITED = Concrete(), FixedPoint(), EditedThenResolved()
SURFACES = {s.name: s for s in (CONCRETE, FIXED, EDITED)}

F20_WITNESS = {"template": {"Resources": {"R": {"Type": "AWS::IAM::Policy", "Properties": {
    "PolicyName": {"Fn::Join": ["", ["TR", "UE"]]},
    "PolicyDocument": {"Statement": [{"Effect": "Allow", "Action": "s3:GetObject", "Resource": "*"}]}}}}}, "extra": {}}
F18_WITNESS = {"template": {"Resources": {"R": {"Type": "Custom::X", "Properties": {
    "P": {"Ref": "AWS::Region", "y": {"Ref": "AWS::NoValue"}}}}}}, "extra": {}}
F14B_WITNESS = {"template": {"Mappings": {"M": {"a": {"b": "True"}}}, "Resources": {"R": {"Type": "AWS::IAM::Policy", "Properties": {
    "PolicyName": {"Fn::FindInMap": ["M", "a", "b"]},
    "PolicyDocument": {"Statement": [{"Effect": "Allow", "Action": "s3:GetObject", "Resource": "*"}]}}}}}, "extra": {}}


def reproduce_known(f):
    if f["id"] == "F20":
        i = FIXED.impl(F20_WITNESS)
        return i[0] == "OK" and i[1]["equal"] is False
    if f["id"] == "F14b":
        i = FIXED.impl(F14B_WITNESS)
        return i[0] == "OK" and i[1]["equal"] is False
    if f["id"] == "F18":
        i = CONCRETE.impl(F18_WITNESS)
        return i[0] == "OK" and i[1]["functions_left"]
    return None


def corpus():
    p = core.VERIF / "corpus" / "C03.json"
    if p.exists():
        for c in json.loads(p.read_text()):
            yield SURFACES[c["surface"]], wire.unjson(c["input"])


def rare_positions(rng):
    x = tplgen.gen_template(rng)
    g = resgen.ExprGen(rng, _env_of(x, rng))
    g.str_only = True
    t = x["template"]
    pol = {"Type": "AWS::IAM::Role", "Properties": {
        "AssumeRolePolicyDocument": {"Version": "2012-10-17", "Statement": [{
            "Effect": "Allow", "Action": "sts:AssumeRole",
            "Principal": {"AWS": [g.s(2), g.s(1)], "Service": g.s(1)},
            "Condition": {"StringEquals": {"aws:k": g.s(2)}, "ForAnyValue:StringLike": {"aws:l": [g.s(1), g.s(1)]}}}]},
        "Tags": [{"Key": g.s(1), "Value": g.s(2)}],
        "Policies": [{"PolicyName": g.s(2), "PolicyDocument": {"Statement": [
            {"Effect": "Allow", "Action": "s3:GetObject", "Resource": {"Fn::If": [g.cname(), g.s(1), g.s(1)]}}]}}]}}
    t["Resources"]["Rare"] = pol
    g.str_only = False
    t["Resources"]["RareGeneric"] = {"Type": "Custom::Rare", "Properties": {
        "Deep": [[g.s(1), [g.s(2)]], {"A": {"B": [g.s(1)]}}], "U": {"Ref": "DefinitelyMissing"}},
        "Metadata": {"M": [g.s(1)]}}
    return x


def _env_of(x, rng):
    env = tplgen.TEnv(rng)
    for n in (x["template"].get("Parameters") or {}):
        env.params[n] = "x"
    for p in tplgen.PSEUDO_NAMES:
        env.params[p] = "x"
    env.mappings = x["template"].get("Mappings") or {}
    env.conds = {c: True for c in (x["template"].get("Conditions") or {})}
    return env


def cases(rng, tier, shard, nshards):
    resgen.check_alphabet()
    if shard == 0:
        yield from corpus()
    n = {"quick": 900, "thorough": 9000}[tier]
    for k in range(n):
        x = rare_positions(rng) if k % 2 == 0 else tplgen.gen_template(rng)
        yield CONCRETE, x
        yield FIXED, x
        if k % 3 == 0:
            yield EDITED, x
        if k % 9 == 4:
            y = tplgen.gen_typed_template(rng, resolvable=True)      # every modelled class, functions (resolvable or not) wherever text is allowed
            y = {"template": y["template"], "extra": y["extra"], "valid": True}
            yield CONCRETE, y
            yield FIXED, y
