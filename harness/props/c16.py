"""C16 -- policy queries count only Allow statements and see every principal."""
import copy
import json
import re
import resource

import core

# The wire encoder of the extracted runner (Base/Wire.v: flat_map / app) recurses once per output token; get_allowed_actions can
# answer with the whole catalogue (~450k tokens), which needs more than the default 8 MiB stack.  The runner is a child process
# started after this module is imported, so raising the soft limit here gives it the room (nothing else is affected).
try:
    _soft, _hard = resource.getrlimit(resource.RLIMIT_STACK)
    _want = 1 << 30
    if _hard != resource.RLIM_INFINITY:
        _want = min(_want, _hard)
    if _soft != resource.RLIM_INFINITY and _soft < _want:
        resource.setrlimit(resource.RLIMIT_STACK, (_want, _hard))
except (ValueError, OSError):
    pass

ID = "C16"
TABLES = ["principal_fields"]
BUDGET = {"quick": (4, 55), "thorough": (16, 400)}
GEN_OBLIGATIONS = [
    "Policy/PrincipalTable.v:principal_table_ok", "Policy/PrincipalTable.v:principal_table_names",
    "Policy/PrincipalTable.v:principal_table_all_optional", "Policy/PrincipalTable.v:principal_table_closed",
    "Policy/PrincipalTable.v:statement_principal_slots",
]
RULE = ("policy documents with 1-5 statements (Statement a single object or a list), each Effect allow/deny in random letter case "
        "(a few documents carry one invalid effect), Principal / NotPrincipal of every shape (absent, null, string, list, object keyed by "
        "AWS/CanonicalUser/Federated/Service in random key order with string or list values, mixed), principals distinct per statement "
        "with occasional deliberate reuse, function objects inside lists; about 4 statements in 5 carry Resource and/or NotResource in every "
        "shape (null, string, '*', list of 0-4 ARNs with function-object members, a function object as the whole element), resources distinct "
        "per statement with deliberate reuse across statements; whitelists are lists drawn from the document's own principals, "
        "case-swapped / truncated variants and unrelated strings; patterns are globs or literal prefixes derived from the document's own "
        "principals / actions / resources.  non-trivial = the case holds a Deny statement next to an Allow one, or an effect not spelled "
        "canonically, or an object-shaped principal, or both Principal and NotPrincipal (resource surfaces: the statement / document carries a "
        "Resource or NotResource; statements_with: additionally a Deny statement with resources); distinct by hash of (surface, input).")
ASSUMPTIONS = [
    "whitelists are lists of strings (a str whitelist makes `in` a substring test; the property quantifies over whitelists as collections)",
    "Pattern arguments are restricted to three families whose `.match` is modelled exactly: regex_from_cf_string(glob) (glob_ci, tied by C08), "
    "regex_from_cf_string(glob, case_sensitive=True) (glob_cs) and re.compile(re.escape(text)) (literal prefix); arbitrary caller-supplied "
    "regular expressions are not modelled (the theorems hold for ANY predicate on strings; only the tie is restricted)",
    "single-line text; case-insensitive matching is modelled as ASCII folding: cased non-ASCII letters (and the Kelvin sign / long s, which "
    "re.IGNORECASE folds onto k / s) are outside the generated alphabet",
    "str.capitalize() is modelled on ASCII; extra_checks verifies on every run, over all of Unicode, that no non-ASCII code point title-cases "
    "into a prefix of, or lower-cases into a substring of, 'Allow'/'Deny', so the ASCII model decides the validator for every string",
    "Effect is a literal string (a function object as Effect is outside the property: the model answers EUndefined); statements carry only the "
    "keys Sid, Effect, Principal, NotPrincipal, Action, NotAction, Resource, NotResource (no Condition)",
    "Resource / NotResource are null, a string, a list of strings and function objects, or ONE function object as the whole element (stored by "
    "model_validate as a FunctionDict, which get_resource_list neither extends nor appends: the model follows the library there, see "
    "C16_ex_resource_function_objects); Action / NotAction as a whole function object stay outside the domain (EUndefined)",
    "get_iam_actions is compared, like get_allowed_actions, for statements with string Action patterns and no NotAction; the theorems "
    "C16_iam_actions* hold for every expansion function",
    "function objects ({'Ref': ..}, {'Fn::Sub': ..}, ...) are generated only as MEMBERS of principal / action lists (kept by get_principal_list, "
    "never reported by the string queries).  A function object as the whole Principal element, or as the value of a Principal object field, is "
    "outside the shapes the property names: the model answers EUndefined (counted, not compared); see the report for what the code does there",
    "get_allowed_actions is compared for statements with string Action patterns and no NotAction (the expansion itself, NotAction included, is "
    "property C09); the theorem C16_allow_only_actions holds for every expansion function",
]
MODELLED = ("pydantic validation, `re` and the set/list plumbing are not translated: the hand-written model (Policy/Policy.v) is tied to "
            "Statement / PolicyDocument by running both on the same JSON documents through model_validate and the public query methods; "
            "the Principal field order is a generated table (gen/PrincipalFields.v) re-proved equal to the model's on every run")

FIELDS = ["AWS", "CanonicalUser", "Federated", "Service"]
FN_OBJECTS = [{"Ref": "RoleArn"}, {"Fn::Sub": "arn:${AWS::Partition}:iam::${AWS::AccountId}:root"},
              {"Fn::GetAtt": ["Role", "Arn"]}, {"Fn::ImportValue": "shared-principal"}, {"Fn::Join": ["", ["arn:aws:iam::", {"Ref": "Acct"}, ":root"]]}]
INVALID_EFFECTS = ["Permit", "", "Allow ", " allow", "Allowed", "Den", "Deny\n", "allo", "AllowDeny", "Аllow", "ａllow", "*", "true", "deny."]


# ---------------------------------------------------------------------------------------------
# generators (plain JSON-like data; every choice from rng)

def rand_case(rng, w):
    r = rng.random()
    if r < 0.25:
        return w.capitalize()
    if r < 0.4:
        return w.lower()
    if r < 0.55:
        return w.upper()
    return "".join(c.upper() if rng.random() < 0.5 else c.lower() for c in w)


class Fresh:
    """Principals distinct per statement (a leaked Deny principal is then visible), with deliberate reuse now and then."""

    def __init__(self, rng):
        self.rng = rng
        self.n = 0
        self.used = []
        self.nres = 0
        self.used_res = []

    def principal(self, field=None):
        rng = self.rng
        if self.used and rng.random() < 0.12:
            return rng.choice(self.used)
        self.n += 1
        k = self.n
        acct = f"{rng.randrange(10**11, 10**12)}"
        if field == "Service":
            p = rng.choice([f"svc{k}.amazonaws.com", f"lambda{k}.amazonaws.com", f"Events{k}.AmazonAWS.com"])
        elif field == "CanonicalUser":
            p = f"{rng.getrandbits(64):016x}{k:04d}"
        elif field == "Federated":
            p = rng.choice([f"cognito-identity.amazonaws.com/{k}", f"arn:aws:iam::{acct}:saml-provider/idp{k}", f"www.idp{k}.example"])
        else:
            p = rng.choice([
                f"arn:aws:iam::{acct}:root", f"arn:aws:iam::{acct}:role/r{k}", f"arn:aws:iam::{acct}:user/Path/U.{k}", acct + str(k), acct,
                f"arn:aws:sts::{acct}:assumed-role/R{k}/s", f"AIDA{k:08d}", f"p{k} (x+y)[z]", f"中{k}", f"*{k}",
            ])
        self.used.append(p)
        return p

    def resource(self):
        """Resources distinct per statement, reused now and then (so the same ARN sits under an Allow and a Deny statement)."""
        rng = self.rng
        if self.used_res and rng.random() < 0.15:
            return rng.choice(self.used_res)
        self.nres += 1
        k = self.nres
        acct = f"{rng.randrange(10**11, 10**12)}"
        r = rng.choice([
            f"arn:aws:s3:::bucket{k}", f"arn:aws:s3:::bucket{k}/*", f"arn:aws:s3:::Bucket{k}/Prefix/*", f"arn:aws:iam::{acct}:role/r{k}",
            f"arn:aws:sqs:eu-west-1:{acct}:queue{k}", f"arn:aws:kms:*:{acct}:key/*", f"arn:aws:lambda:us-east-1:{acct}:function:F{k}:?",
            f"ARN:AWS:S3:::UPPER{k}", f"res{k} (x+y)[z]", f"資{k}", f"*{k}", f"arn:aws:dynamodb:*:*:table/t{k}",
        ])
        self.used_res.append(r)
        return r


def gen_str_or_list(rng, mk, allow_fn=True):
    r = rng.random()
    if r < 0.45:
        return mk()
    n = rng.choice([0, 1, 1, 2, 2, 3])
    out = []
    for _ in range(n):
        if allow_fn and rng.random() < 0.08:
            out.append(dict(rng.choice(FN_OBJECTS)))
        else:
            out.append(mk())
    return out


def gen_principal_elem(rng, fresh, first_star=False):
    r = rng.random()
    if r < 0.06:
        return None
    if r < 0.12 and first_star:
        return "*"
    if r < 0.3:
        return fresh.principal()
    if r < 0.5:
        return gen_str_or_list(rng, fresh.principal)
    ks = [k for k in FIELDS if rng.random() < 0.55]
    rng.shuffle(ks)
    d = {}
    for k in ks:
        if rng.random() < 0.07:
            d[k] = None
        else:
            d[k] = gen_str_or_list(rng, lambda k=k: fresh.principal(k))
    return d


def gen_resource_elem(rng, fresh):
    """Every shape of Resource / NotResource: null, '*', string, function object as the whole element, list (with function objects)."""
    r = rng.random()
    if r < 0.04:
        return None
    if r < 0.14:
        return "*"
    if r < 0.40:
        return fresh.resource()
    if r < 0.50:
        return dict(rng.choice(FN_OBJECTS))
    n = rng.choice([0, 1, 1, 2, 2, 3, 4])
    return [dict(rng.choice(FN_OBJECTS)) if rng.random() < 0.15 else fresh.resource() for _ in range(n)]


def gen_action_pattern(rng, cat):
    a = rng.choice(cat)
    svc, name = a.split(":", 1)
    r = rng.random()
    if r < 0.3:
        return a
    if r < 0.55:
        return svc + ":" + name[: rng.randrange(1, len(name) + 1)] + "*"
    if r < 0.65:
        return a.swapcase()
    if r < 0.75:
        return svc + ":*"
    if r < 0.8:
        i = rng.randrange(len(name))
        return svc + ":" + name[:i] + "?" + name[i + 1:]
    if r < 0.83:
        return "*"
    if r < 0.9:
        return svc + ":" + name + "NoSuchThing"
    return rng.choice(["iam:*", "iam:Pass*", "s3:Get*", "sts:AssumeRole", "IAM:passrole", "ec2:Describe*"])


def gen_statement(rng, fresh, cat, idx, plain_actions, effect=None):
    st = []
    if rng.random() < 0.9:
        st.append(("Sid", f"s{idx}"))
    eff = effect if effect is not None else rand_case(rng, rng.choice(["allow", "allow", "deny"]))
    st.append(("Effect", eff))
    r = rng.random()
    if r < 0.55:
        st.append(("Principal", gen_principal_elem(rng, fresh, first_star=True)))
    elif r < 0.75:
        st.append(("NotPrincipal", gen_principal_elem(rng, fresh)))
    elif r < 0.95:
        st.append(("Principal", gen_principal_elem(rng, fresh, first_star=True)))
        st.append(("NotPrincipal", gen_principal_elem(rng, fresh)))
    mk = lambda: gen_action_pattern(rng, cat)  # noqa: E731
    r = rng.random()
    if plain_actions:
        if r < 0.9:
            st.append(("Action", gen_str_or_list(rng, mk, allow_fn=False)))
    else:
        if r < 0.7:
            st.append(("Action", gen_str_or_list(rng, mk)))
        elif r < 0.85:
            st.append(("NotAction", gen_str_or_list(rng, mk)))
        elif r < 0.9:
            st.append(("Action", gen_str_or_list(rng, mk)))
            st.append(("NotAction", gen_str_or_list(rng, mk)))
    r = rng.random()
    if r < 0.58:
        st.append(("Resource", gen_resource_elem(rng, fresh)))
    elif r < 0.70:
        st.append(("NotResource", gen_resource_elem(rng, fresh)))
    elif r < 0.82:
        st.append(("Resource", gen_resource_elem(rng, fresh)))
        st.append(("NotResource", gen_resource_elem(rng, fresh)))
    if rng.random() < 0.3:
        # a conditional statement: the queries of this property do not look at the Condition block -- a conditional Allow counts
        # like any other Allow (audit experiment 1: "skip Allow statements that carry a Condition" went unnoticed)
        st.append(("Condition", copy.deepcopy(rng.choice(STMT_CONDITIONS))))
    rng.shuffle(st)
    return dict(st)


STMT_CONDITIONS = [{"StringEquals": {"aws:PrincipalOrgID": "o-123"}}, {"Bool": {"aws:SecureTransport": "true"}},
                   {"IpAddress": {"aws:SourceIp": ["192.0.2.0/24", "2001:db8::/32"]}}, {"StringLike": {"s3:prefix": ["home/*"]}},
                   {"ArnLike": {"aws:SourceArn": "arn:aws:s3:::b*"}, "NumericLessThan": {"s3:max-keys": "10"}},
                   {"DateLessThan": {"aws:CurrentTime": "2030-01-01T00:00:00Z"}}, {"Null": {"aws:TokenIssueTime": "false"}}]


def gen_doc(rng, cat, plain_actions=False):
    fresh = Fresh(rng)
    n = rng.choice([1, 1, 2, 2, 3, 3, 4, 5])
    bad = rng.randrange(n) if rng.random() < 0.06 else -1
    sts = [gen_statement(rng, fresh, cat, i, plain_actions, effect=rng.choice(INVALID_EFFECTS) if i == bad else None) for i in range(n)]
    if n == 1 and rng.random() < 0.6:
        return {"Statement": sts[0]}
    return {"Statement": sts}


def doc_statements(doc):
    s = doc.get("Statement")
    return s if isinstance(s, list) else [s]


def elem_strings(e):
    out = []
    if isinstance(e, str):
        out.append(e)
    elif isinstance(e, list):
        out += [x for x in e if isinstance(x, str)]
    elif isinstance(e, dict):
        for v in e.values():
            out += elem_strings(v) if not isinstance(v, dict) else []
    return out


def doc_principals(doc):
    out = []
    for s in doc_statements(doc):
        if isinstance(s, dict):
            out += elem_strings(s.get("Principal")) + elem_strings(s.get("NotPrincipal"))
    return out


def doc_actions(doc):
    out = []
    for s in doc_statements(doc):
        if isinstance(s, dict):
            out += elem_strings(s.get("Action")) + elem_strings(s.get("NotAction"))
    return out


def stmt_resources(s):
    out = []
    if isinstance(s, dict):
        for key in ("Resource", "NotResource"):
            e = s.get(key)
            out += [e] if isinstance(e, str) else [y for y in e if isinstance(y, str)] if isinstance(e, list) else []
    return out


def doc_resources(doc):
    out = []
    for s in doc_statements(doc):
        out += stmt_resources(s)
    return out


def ascii_swapcase(s):
    return "".join(c.swapcase() if c.isascii() else c for c in s)


def other_spellings(p):
    """Texts that NAME the same principal to IAM (or look as if they did) and are different strings: membership in the whitelist is
    by string, so none of them whitelists `p` (seeded change C16-r5m2 treated the bare account id and its root ARN as one entry)."""
    import re
    out = []
    m = re.fullmatch(r"arn:aws:iam::(\d{12}):root", p)
    if m:
        out += [m.group(1), f"arn:aws-cn:iam::{m.group(1)}:root", p + "/", f"arn:aws:iam::{m.group(1)}:ROOT", f"arn:aws:iam::{m.group(1)}:*"]
    if re.fullmatch(r"\d{12}", p):
        out += [f"arn:aws:iam::{p}:root", f"arn:aws:iam::{p}:*", p + " ", "0" + p, p[:-1]]
    m = re.fullmatch(r"arn:aws:(iam|sts)::(\d{12}):(.+)", p)
    if m and not out:
        out += [m.group(2), f"arn:aws:iam::{m.group(2)}:root", p.replace("arn:aws:", "arn:aws-us-gov:", 1)]
    if p.endswith(".amazonaws.com"):
        out += [p[: -len(".amazonaws.com")], p + ".", p.replace(".amazonaws.com", ".amazonaws.com.cn")]
    return out


class CaseBlind(str):
    """a str subclass with its own equality and hash: a caller's type for ARNs that compares case-insensitively"""

    def __eq__(self, other):
        return isinstance(other, str) and str.lower(self) == str.lower(other)

    def __ne__(self, other):
        return not self.__eq__(other)

    def __hash__(self):
        return hash(str.lower(self))


def as_collection(wl, kind):
    """the whitelist as the collection the caller might hand in: membership (`principal in whitelist`) is the criterion, whatever
    the collection is (seeded change C16-r7Em2 indexed the members in a hash set by isinstance(.., str), which changes what `in`
    means for a str subclass with its own equality)"""
    if kind == "tuple":
        return tuple(wl)
    if kind == "set":
        return set(wl)
    if kind == "frozenset":
        return frozenset(wl)
    if kind == "ci":
        return [CaseBlind(w) if isinstance(w, str) else w for w in wl]
    return list(wl)


def gen_whitelist(rng, ps):
    n = rng.choice([0, 1, 1, 2, 3, 5])
    wl = []
    for _ in range(n):
        r = rng.random()
        alias = [a for p in ps if isinstance(p, str) for a in other_spellings(p)] if ps and r < 0.2 else []
        if alias and rng.random() < 0.6:
            wl.append(rng.choice(alias))
        elif ps and r < 0.55:
            wl.append(rng.choice(ps))
        elif ps and r < 0.7:
            wl.append(ascii_swapcase(rng.choice(ps)))
        elif ps and r < 0.85:
            p = rng.choice(ps)
            wl.append(p[: rng.randrange(len(p) + 1)])
        elif r < 0.9:
            wl.append("*")
        else:
            wl.append(rng.choice(["", "arn:aws:iam::123456789012:root", "ec2.amazonaws.com"]))
    return wl


def gen_pattern(rng, pool):
    """(kind, text): 0 glob case-insensitive, 1 glob case-sensitive, 2 literal prefix."""
    kind = rng.choice([0, 0, 0, 1, 2, 2])
    if not pool or rng.random() < 0.1:
        return {"kind": kind, "text": rng.choice(["*", "", "arn:aws:iam::*", "?", "iam:*", "*:root", "a.c", "(", "s3:"])}
    p = rng.choice(pool)
    r = rng.random()
    if kind == 2:
        if r < 0.5:
            t = p[: rng.randrange(len(p) + 1)]
        elif r < 0.7:
            t = p
        elif r < 0.85:
            t = ascii_swapcase(p[: rng.randrange(len(p) + 1)])
        else:
            t = p + "x"
        return {"kind": 2, "text": t}
    if r < 0.25:
        t = p
    elif r < 0.5:
        t = p[: rng.randrange(len(p) + 1)] + "*"
    elif r < 0.6:
        t = "*" + p[rng.randrange(len(p) + 1):]
    elif r < 0.7:
        i = rng.randrange(len(p)) if p else 0
        t = p[:i] + "?" + p[i + 1:]
    elif r < 0.85:
        t = ascii_swapcase(p)
    elif r < 0.92:
        i = rng.randrange(len(p) + 1)
        j = rng.randrange(i, len(p) + 1)
        t = p[:i] + "*" + p[j:]
    else:
        i = rng.randrange(len(p)) if p else 0
        t = p[:i] + rng.choice(".+()[|$^\\") + p[i + 1:]
    return {"kind": kind, "text": t}


def compile_pattern(pat):
    from pycfmodel.utils import regex_from_cf_string
    if pat["kind"] == 0:
        return regex_from_cf_string(pat["text"])
    if pat["kind"] == 1:
        return regex_from_cf_string(pat["text"], case_sensitive=True)
    if pat["kind"] == 2:
        return re.compile(re.escape(pat["text"]))
    raise ValueError("pattern kind")


# ---------------------------------------------------------------------------------------------
# tags / non-triviality

def elem_shape(e):
    if e is None:
        return "null"
    if isinstance(e, str):
        return "str"
    if isinstance(e, list):
        return "list"
    if isinstance(e, dict):
        if len(e) == 1 and next(iter(e)) not in FIELDS:
            return "fn-object-whole"
        return "obj"
    return "other"


def stmt_tags(s):
    t = set()
    if not isinstance(s, dict):
        return {"not-an-object"}
    if "Condition" in s:
        t.add("conditional")
    eff = s.get("Effect")
    if isinstance(eff, str):
        lo = eff.lower()
        if lo == "allow":
            t.add("allow")
        elif lo == "deny":
            t.add("deny")
        else:
            t.add("invalid-effect")
        if eff not in ("Allow", "Deny") and lo in ("allow", "deny"):
            t.add("effect-case")
    elif "Effect" not in s:
        t.add("no-effect")
    else:
        t.add("effect-not-str")
    for key, pre in (("Principal", "p-"), ("NotPrincipal", "np-")):
        if key in s:
            e = s[key]
            t.add(pre + elem_shape(e))
            if isinstance(e, dict):
                for k, v in e.items():
                    t.add("field-" + k)
                    t.add("fieldval-" + ("fn" if isinstance(v, dict) else elem_shape(v)))
                    if isinstance(v, list) and any(isinstance(x, dict) for x in v):
                        t.add("fn-in-list")
                if len({elem_shape(v) for v in e.values()}) > 1:
                    t.add("obj-mixed")
            if isinstance(e, list) and any(isinstance(x, dict) for x in e):
                t.add("fn-in-list")
    if "Principal" in s and "NotPrincipal" in s:
        t.add("both")
    if "NotAction" in s:
        t.add("notaction")
    for key, pre in (("Resource", "r-"), ("NotResource", "nr-")):
        if key in s:
            e = s[key]
            t.add(pre + elem_shape(e))
            if isinstance(e, list) and any(isinstance(x, dict) for x in e):
                t.add("fn-in-reslist")
    if "Resource" in s and "NotResource" in s:
        t.add("both-resources")
    if any(k in s for k in ("Resource", "NotResource")):
        t.add("has-resource")
        if "deny" in t:
            t.add("deny-with-resource")
    return t


def doc_tags(doc):
    t = set()
    s = doc.get("Statement")
    t.add("stmt-list" if isinstance(s, list) else "stmt-single")
    sts = doc_statements(doc)
    t.add(f"n={len(sts)}")
    for x in sts:
        t |= stmt_tags(x)
    if "allow" in t and "deny" in t:
        t.add("allow+deny")
    return t


def interesting(tags):
    return bool(tags & {"allow+deny", "effect-case", "p-obj", "np-obj", "both", "invalid-effect"})


# ---------------------------------------------------------------------------------------------
# implementation side

def plain(v):
    """FunctionDict instances (members of top-level lists) and dumped dicts (members of object fields) -> plain dicts."""
    from pydantic import BaseModel
    if isinstance(v, BaseModel):
        return plain(v.model_dump())
    if isinstance(v, list):
        return [plain(x) for x in v]
    if isinstance(v, dict):
        return {k: plain(x) for k, x in v.items()}
    return v


def mk_statement(raw):
    from pycfmodel.model.resources.properties.statement import Statement
    return Statement.model_validate(raw)


def mk_document(raw):
    from pycfmodel.model.resources.properties.policy_document import PolicyDocument
    return PolicyDocument.model_validate(raw)


def as_set_list(r):
    """The API returns list(set(..)): compare as the sorted set, and insist that it is duplicate-free and all str."""
    if not isinstance(r, list) or not all(isinstance(x, str) for x in r):
        raise TypeError("result is not a list of str")
    if len(set(r)) != len(r):
        raise ValueError("duplicates in a set-valued result")
    return sorted(r)


class C16Surface(core.Surface):
    level = "stmt"

    def tags(self, x):
        return stmt_tags(x["stmt"]) if self.level == "stmt" else doc_tags(x["doc"])

    def nontrivial(self, x, i, m):
        return interesting(self.tags(x))


class EffectLiteral(C16Surface):
    name = "Statement(Effect=s).Effect"
    theorem = "C16_effect / C16_effect_stored / C16_effect_rejects"

    def impl(self, x):
        return core.impl_call(lambda: mk_statement({"Effect": x["s"]}).Effect)

    def model(self, rn, x):
        return core.model_res(rn.call(1601, [x["s"]]))

    def tags(self, x):
        return stmt_tags({"Effect": x["s"]})

    def nontrivial(self, x, i, m):
        return x["s"] not in ("Allow", "Deny")


class StmtEffect(C16Surface):
    name = "Statement.model_validate(raw).Effect"
    theorem = "C16_statement_validated / C16_statement_rejected"

    def impl(self, x):
        return core.impl_call(lambda: mk_statement(x["stmt"]).Effect)

    def model(self, rn, x):
        return core.model_res(rn.call(1602, [x["stmt"]]))


class PrincipalList(C16Surface):
    name = "Statement.get_principal_list()"
    theorem = "C16_principals_complete / C16_principals_object_order / C16_principal_fields_table"

    def impl(self, x):
        def run():
            st = mk_statement(x["stmt"])
            first = plain(st.get_principal_list())
            st.non_whitelisted_principals([])          # other queries on the SAME statement in between
            st.get_principal_list()
            again = plain(st.get_principal_list())
            return again if again == first else {"unstable-on-the-same-statement": [first, again]}
        return core.impl_call(run)

    def model(self, rn, x):
        return core.model_res(rn.call(1603, [x["stmt"]]))


class NonWhitelisted(C16Surface):
    name = "Statement.non_whitelisted_principals(wl)"
    theorem = "C16_whitelist"
    frozen = frozenset({"wl_kind"})

    def impl(self, x):
        def run():
            st, wl = mk_statement(x["stmt"]), as_collection(x["wl"], x.get("wl_kind"))
            first = st.non_whitelisted_principals(wl)
            again = st.non_whitelisted_principals(wl)      # the SAME whitelist object and statement again
            if sorted(map(repr, wl)) != sorted(map(repr, as_collection(x["wl"], x.get("wl_kind")))):
                return {"whitelist-argument-modified": sorted(map(repr, wl))}
            return again if again == first else {"unstable-on-the-same-objects": [first, again]}
        return core.impl_call(run)

    def model(self, rn, x):
        if x.get("wl_kind") == "ci":
            # membership is whatever `in` says for the collection handed in: here its members compare case-insensitively.  The
            # model enumerates the principals (empty whitelist: all of them, in order); Python's own `in` is the oracle of membership
            every = core.model_res(rn.call(1604, [x["stmt"], []]))
            if every[0] != "OK":
                return every
            wl = as_collection(x["wl"], "ci")
            return ("OK", [p for p in every[1] if not (isinstance(p, str) and p in wl)])
        return core.model_res(rn.call(1604, [x["stmt"], x["wl"]]))


class PrincipalsWith(C16Surface):
    name = "Statement.principals_with(pattern)"
    theorem = "C16_principals_with"
    frozen = frozenset({"pat"})

    def impl(self, x):
        return core.impl_call(lambda: mk_statement(x["stmt"]).principals_with(compile_pattern(x["pat"])))

    def model(self, rn, x):
        return core.model_res(rn.call(1605, [x["stmt"], x["pat"]["kind"], x["pat"]["text"]]))


class ResourceList(C16Surface):
    name = "Statement.get_resource_list()"
    theorem = "C16_resource_list_complete / C16_resource_list_order / C16_resource_shapes / C16_resource_list_of_raw"

    def impl(self, x):
        def run():
            st = mk_statement(x["stmt"])
            first = plain(st.get_resource_list())
            st.resources_with(re.compile(""))           # another query on the SAME statement in between
            st.get_resource_list().append("intruder")    # the list handed out must not be the statement's own
            again = plain(st.get_resource_list())
            return again if again == first else {"unstable-on-the-same-statement": [first, again]}
        return core.impl_call(run)

    def model(self, rn, x):
        return core.model_res(rn.call(1606, [x["stmt"]]))

    def nontrivial(self, x, i, m):
        return "has-resource" in self.tags(x)


class ResourcesWith(C16Surface):
    name = "Statement.resources_with(pattern)"
    theorem = "C16_resources_with / C16_resources_with_order / C16_resources_with_independent"
    frozen = frozenset({"pat"})

    def impl(self, x):
        return core.impl_call(lambda: mk_statement(x["stmt"]).resources_with(compile_pattern(x["pat"])))

    def model(self, rn, x):
        return core.model_res(rn.call(1607, [x["stmt"], x["pat"]["kind"], x["pat"]["text"]]))

    def nontrivial(self, x, i, m):
        return "has-resource" in self.tags(x)


class ActionListFlags(C16Surface):
    name = "Statement.get_action_list(include_action, include_not_action)"
    theorem = "C16_action_list_flags / C16_action_list_flag_cases"

    def impl(self, x):
        def run():
            st = mk_statement(x["stmt"])
            ia, ina = x["flags"]
            r = plain(st.get_action_list(include_action=ia, include_not_action=ina))
            if ia and ina and plain(st.get_action_list()) != r:
                return {"default-flags-differ-from-true-true": r}
            return r
        return core.impl_call(run)

    def model(self, rn, x):
        return core.model_res(rn.call(1608, [x["stmt"], bool(x["flags"][0]), bool(x["flags"][1])]))

    def nontrivial(self, x, i, m):
        return "Action" in x["stmt"] or "NotAction" in x["stmt"]


class DocEffects(C16Surface):
    name = "[s.Effect for s in PolicyDocument.statement_as_list()]"
    theorem = "C16_single_vs_list / C16_statement_validated"
    level = "doc"

    def impl(self, x):
        return core.impl_call(lambda: [s.Effect for s in mk_document(x["doc"]).statement_as_list()])

    def model(self, rn, x):
        return core.model_res(rn.call(1610, [x["doc"]]))


class DocPrincipalsWith(C16Surface):
    name = "PolicyDocument.allowed_principals_with(pattern)"
    theorem = "C16_allow_only_principals_with / C16_deny_invisible"
    level = "doc"
    frozen = frozenset({"pat"})

    def impl(self, x):
        return core.impl_call(lambda: as_set_list(mk_document(x["doc"]).allowed_principals_with(compile_pattern(x["pat"]))))

    def model(self, rn, x):
        return core.model_res(rn.call(1611, [x["doc"], x["pat"]["kind"], x["pat"]["text"]]))


class DocNonWhitelisted(C16Surface):
    name = "PolicyDocument.non_whitelisted_allowed_principals(wl)"
    theorem = "C16_allow_only_non_whitelisted / C16_deny_invisible / C16_whitelist"
    level = "doc"

    def impl(self, x):
        def run():
            doc, wl = mk_document(x["doc"]), list(x["wl"])
            first = as_set_list(doc.non_whitelisted_allowed_principals(wl))
            again = as_set_list(mk_document(x["doc"]).non_whitelisted_allowed_principals(wl))   # same whitelist object, second document
            if wl != list(x["wl"]):
                return {"whitelist-argument-modified": wl}
            return again if again == first else {"unstable-with-the-same-whitelist-object": [first, again]}
        return core.impl_call(run)

    def model(self, rn, x):
        return core.model_res(rn.call(1612, [x["doc"], x["wl"]]))


class DocActionsWith(C16Surface):
    name = "[s.Sid for s in PolicyDocument.allowed_actions_with(pattern)]"
    theorem = "C16_allow_only_actions_with / C16_deny_invisible"
    level = "doc"
    frozen = frozenset({"pat"})

    def impl(self, x):
        def f():
            pd = mk_document(x["doc"])
            all_s = pd.statement_as_list()
            r = pd.allowed_actions_with(compile_pattern(x["pat"]))
            # the statements themselves, in document order
            pos = [next(i for i, s in enumerate(all_s) if s is y) for y in r]
            if pos != sorted(set(pos)):
                raise ValueError("statements returned out of document order or repeated")
            return [plain(s.Sid) for s in r]
        return core.impl_call(f)

    def model(self, rn, x):
        return core.model_res(rn.call(1613, [x["doc"], x["pat"]["kind"], x["pat"]["text"]]))


class DocAllowedActions(C16Surface):
    name = "PolicyDocument.get_allowed_actions()"
    theorem = "C16_allow_only_actions / C16_deny_invisible"
    level = "doc"

    def impl(self, x):
        return core.impl_call(lambda: mk_document(x["doc"]).get_allowed_actions())

    def model(self, rn, x):
        m = core.model_res(rn.call(1614, [x["doc"]], sample=False))
        if m[0] == "OK":
            # the model answers in catalogue order with repetitions across statements; the API promises sorted(set(..))
            return ("OK", sorted(set(m[1])))
        return m

    def nontrivial(self, x, i, m):
        return interesting(self.tags(x)) and m[0] == "OK" and len(m[1]) > 0


def statements_with_positions(pd, pat):
    """[[Sid of each returned statement], [its position in the document]]; the statements are identified by identity."""
    all_s = pd.statement_as_list()
    r = pd.statements_with(pat)
    pos = [next(i for i, s in enumerate(all_s) if s is y) for y in r]
    return [[plain(s.Sid) for s in r], pos]


class DocStatementsWith(C16Surface):
    name = "PolicyDocument.statements_with(pattern): Sids and positions"
    theorem = "C16_statements_with / C16_statements_with_order / C16_statements_with_positions / C16_deny_visible_to_statements_with"
    level = "doc"
    frozen = frozenset({"pat"})

    def impl(self, x):
        return core.impl_call(lambda: statements_with_positions(mk_document(x["doc"]), compile_pattern(x["pat"])))

    def model(self, rn, x):
        return core.model_res(rn.call(1615, [x["doc"], x["pat"]["kind"], x["pat"]["text"]]))

    def nontrivial(self, x, i, m):
        return "has-resource" in self.tags(x)


def swap_effect(e):
    lo = e.lower()
    return "Deny" if lo == "allow" else "allow" if lo == "deny" else e


class EffectSwapped(C16Surface):
    """Metamorphic reading of C16_statements_with_independent on the implementation itself: the API's answer on the document must equal
    the MODEL's answer on the document with every Allow turned into Deny and every Deny into Allow."""
    name = "statements_with vs the document with every Effect swapped"
    theorem = "C16_statements_with_independent / C16_statements_with_insert"
    level = "doc"
    frozen = frozenset({"pat"})

    def impl(self, x):
        return core.impl_call(lambda: statements_with_positions(mk_document(x["doc"]), compile_pattern(x["pat"])))

    def model(self, rn, x):
        sts = doc_statements(x["doc"])
        if not all(isinstance(s, dict) and isinstance(s.get("Effect"), str) and s["Effect"].lower() in ("allow", "deny") for s in sts):
            return ("EXC", "EUndefined", "")
        swapped = {"Statement": [dict(s, Effect=swap_effect(s["Effect"])) for s in sts]}
        return core.model_res(rn.call(1615, [swapped, x["pat"]["kind"], x["pat"]["text"]]))

    def nontrivial(self, x, i, m):
        return "deny-with-resource" in self.tags(x)


class DocIamActions(C16Surface):
    name = "PolicyDocument.get_iam_actions(difference)"
    theorem = "C16_iam_actions / C16_iam_actions_difference / C16_iam_actions_canonical / C16_iam_actions_sees_deny"
    level = "doc"

    def impl(self, x):
        def f():
            pd = mk_document(x["doc"])
            r = pd.get_iam_actions(difference=x["difference"])
            if not x["difference"] and pd.get_iam_actions() != r:
                return {"default-differs-from-difference-False": r}
            return r
        return core.impl_call(f)

    def model(self, rn, x):
        return core.model_res(rn.call(1616, [x["doc"], bool(x["difference"])], sample=False))

    def nontrivial(self, x, i, m):
        return m[0] == "OK" and len(m[1]) > 0 and any("iam:" in a.lower() for a in doc_actions(x["doc"]))


class DenyRemoved(C16Surface):
    """Metamorphic reading of C16_deny_invisible on the implementation itself: the API's answers on the document must equal the
    MODEL's answers on the document with every Deny statement deleted."""
    name = "non_whitelisted_allowed_principals / allowed_principals_with vs the document without its Deny statements"
    theorem = "C16_deny_invisible / C16_same_allow_same_answers"
    level = "doc"
    frozen = frozenset({"pat"})

    def impl(self, x):
        def f():
            pd = mk_document(x["doc"])
            return [as_set_list(pd.non_whitelisted_allowed_principals(list(x["wl"]))),
                    as_set_list(pd.allowed_principals_with(compile_pattern(x["pat"])))]
        return core.impl_call(f)

    def model(self, rn, x):
        sts = doc_statements(x["doc"])
        if not all(isinstance(s, dict) and isinstance(s.get("Effect"), str) and s["Effect"].lower() in ("allow", "deny") for s in sts):
            return ("EXC", "EUndefined", "")
        kept = {"Statement": [s for s in sts if s["Effect"].lower() != "deny"]}
        a = core.model_res(rn.call(1612, [kept, x["wl"]]))
        b = core.model_res(rn.call(1611, [kept, x["pat"]["kind"], x["pat"]["text"]]))
        if a[0] != "OK":
            return a
        if b[0] != "OK":
            return b
        return ("OK", [a[1], b[1]])

    def nontrivial(self, x, i, m):
        return "deny" in self.tags(x)


class DocEdited(C16Surface):
    """history: query a document, EDIT IT (another Statement list assigned / statements appended / every Effect flipped / a
    model_copy with another Statement list), query again: the second answers must describe the document as it is now
    (added after seeded change C16-r3m2: the Allow statements remembered per document object in a cached_property)"""
    name = "query; edit the PolicyDocument (assign / append / flip Effect / model_copy); query again"
    theorem = "C16_allow_only_* (the queries are functions of the document's current statements)"
    level = "doc"
    frozen = frozenset({"pat", "edit"})

    @staticmethod
    def edited_raw(x):
        a, b = doc_statements(x["doc"]), doc_statements(x["doc2"])
        if x["edit"] in ("assign", "copy"):
            return {"Statement": b}
        if x["edit"] == "append":
            return {"Statement": a + b}
        return {"Statement": [dict(st, Effect=swap_effect(st["Effect"])) for st in a]}

    def impl(self, x):
        def queries(pd):
            pat = compile_pattern(x["pat"])
            return [as_set_list(pd.non_whitelisted_allowed_principals(list(x["wl"]))), as_set_list(pd.allowed_principals_with(pat)),
                    [plain(st.Sid) for st in pd.allowed_actions_with(pat)]]

        def f():
            pd = mk_document({"Statement": doc_statements(x["doc"])})
            queries(pd)
            other = mk_document({"Statement": doc_statements(x["doc2"])})
            if x["edit"] == "assign":
                pd.Statement = other.Statement
            elif x["edit"] == "append":
                pd.Statement.extend(other.Statement)
            elif x["edit"] == "copy":
                pd = pd.model_copy(update={"Statement": other.Statement})
            else:
                for st in pd.Statement:
                    st.Effect = swap_effect(st.Effect)
            return queries(pd)
        return core.impl_call(f)

    def model(self, rn, x):
        sts = doc_statements(x["doc"]) + doc_statements(x["doc2"])
        if not all(isinstance(st, dict) and isinstance(st.get("Effect"), str) and st["Effect"].lower() in ("allow", "deny") for st in sts):
            return ("EXC", "EUndefined", "")
        raw = self.edited_raw(x)
        out = []
        for r in (rn.call(1612, [raw, x["wl"]]), rn.call(1611, [raw, x["pat"]["kind"], x["pat"]["text"]]),
                  rn.call(1613, [raw, x["pat"]["kind"], x["pat"]["text"]])):
            r = core.model_res(r)
            if r[0] != "OK":
                return r
            out.append(r[1])
        return ("OK", out)

    def tags(self, x):
        return doc_tags(x["doc"]) | doc_tags(x["doc2"]) | {"edited:" + x["edit"]}

    def nontrivial(self, x, i, m):
        return True


EFFECT, STMT_EFFECT, PLIST, NONWL, PWITH = EffectLiteral(), StmtEffect(), PrincipalList(), NonWhitelisted(), PrincipalsWith()
DOC_EFFECTS, DOC_PWITH, DOC_NONWL, DOC_AWITH, DOC_ACTIONS, DENY_REMOVED = (
    DocEffects(), DocPrincipalsWith(), DocNonWhitelisted(), DocActionsWith(), DocAllowedActions(), DenyRemoved())
RLIST, RWITH, ALIST_FLAGS, DOC_SWITH, EFFECT_SWAPPED, DOC_IAM = (
    ResourceList(), ResourcesWith(), ActionListFlags(), DocStatementsWith(), EffectSwapped(), DocIamActions())
DOC_EDITED = DocEdited()
SURFACES = {s.name: s for s in (EFFECT, STMT_EFFECT, PLIST, NONWL, PWITH, DOC_EFFECTS, DOC_PWITH, DOC_NONWL, DOC_AWITH,
                                DOC_ACTIONS, DENY_REMOVED, RLIST, RWITH, ALIST_FLAGS, DOC_SWITH, EFFECT_SWAPPED, DOC_IAM, DOC_EDITED)}


def prepare(rn):
    from pycfmodel.cloudformation_actions import CLOUDFORMATION_ACTIONS
    n = rn.call(0, list(CLOUDFORMATION_ACTIONS), sample=False)
    assert n == len(CLOUDFORMATION_ACTIONS)


def corpus():
    p = core.VERIF / "corpus" / "C16.json"
    if p.exists():
        for c in json.loads(p.read_text()):
            yield SURFACES[c["surface"]], c["input"]


def gen_effect_string(rng):
    r = rng.random()
    if r < 0.55:
        return rand_case(rng, rng.choice(["allow", "deny"]))
    if r < 0.75:
        return rng.choice(INVALID_EFFECTS)
    w = rand_case(rng, rng.choice(["allow", "deny"]))
    r = rng.random()
    if r < 0.3 and w:
        i = rng.randrange(len(w))
        return w[:i] + w[i + 1:]
    if r < 0.6:
        i = rng.randrange(len(w) + 1)
        return w[:i] + rng.choice(list(" .-_lLwWyY\t") + ["ß", "ı", "İ", "ǅ", "ﬂ", "ẚ", "K"]) + w[i:]
    i = rng.randrange(len(w))
    return w[:i] + rng.choice("ABCDEFGHIJKLMNOPQRSTUVWXYZabcdefghijklmnopqrstuvwxyz01") + w[i + 1:]


def undefined_stream(rng, fresh):
    """Shapes outside the property (the model must decline): function object as the whole element / as a field value, Effect a function."""
    yield PLIST, {"stmt": {"Effect": "Allow", "Principal": dict(rng.choice(FN_OBJECTS))}}
    yield PLIST, {"stmt": {"Effect": "Allow", "Principal": {"AWS": dict(rng.choice(FN_OBJECTS)), "Service": fresh.principal("Service")}}}
    yield STMT_EFFECT, {"stmt": {"Effect": {"Ref": "E"}, "Principal": fresh.principal()}}
    yield ALIST_FLAGS, {"stmt": {"Effect": "Allow", "Action": dict(rng.choice(FN_OBJECTS)), "Resource": "*"}, "flags": [True, True]}
    yield RLIST, {"stmt": {"Effect": "Allow", "Resource": {"AWS": fresh.resource(), "Service": "x"}}}


def cases(rng, tier, shard, nshards):
    from pycfmodel.cloudformation_actions import CLOUDFORMATION_ACTIONS as cat
    if shard == 0:
        yield from corpus()
    n_docs = {"quick": 800, "thorough": 10000}[tier]
    iam_mix = [a for a in cat if a.lower().startswith("iam:")] + rng.sample(list(cat), 150)   # about half of the patterns name IAM actions
    for k in range(n_docs):
        for _ in range(3):
            yield EFFECT, {"s": gen_effect_string(rng)}
        doc = gen_doc(rng, cat)
        ps = doc_principals(doc)
        yield DOC_EFFECTS, {"doc": doc}
        yield DOC_NONWL, {"doc": doc, "wl": gen_whitelist(rng, ps)}
        yield DOC_PWITH, {"doc": doc, "pat": gen_pattern(rng, ps)}
        yield DOC_AWITH, {"doc": doc, "pat": gen_pattern(rng, doc_actions(doc))}
        yield DENY_REMOVED, {"doc": doc, "wl": gen_whitelist(rng, ps), "pat": gen_pattern(rng, ps)}
        if k % 3 == 0:
            doc2 = gen_doc(rng, cat)
            ps2 = ps + doc_principals(doc2)
            yield DOC_EDITED, {"doc": doc, "doc2": doc2, "wl": gen_whitelist(rng, ps2), "pat": gen_pattern(rng, ps2),
                               "edit": ["assign", "append", "flip", "copy"][(k // 3) % 4]}
        rs = doc_resources(doc)
        yield DOC_SWITH, {"doc": doc, "pat": gen_pattern(rng, rs)}
        yield EFFECT_SWAPPED, {"doc": doc, "pat": gen_pattern(rng, rs)}
        for s in doc_statements(doc):
            sp = elem_strings(s.get("Principal")) + elem_strings(s.get("NotPrincipal"))
            yield STMT_EFFECT, {"stmt": s}
            yield PLIST, {"stmt": s}
            yield NONWL, {"stmt": s, "wl": gen_whitelist(rng, sp)}
            if rng.random() < 0.25:
                kind = rng.choice(["tuple", "set", "frozenset", "ci", "ci"])
                wl = gen_whitelist(rng, sp)
                if kind in ("set", "frozenset"):
                    wl = sorted(set(w for w in wl if isinstance(w, str)))
                yield NONWL, {"stmt": s, "wl": wl, "wl_kind": kind}
            yield PWITH, {"stmt": s, "pat": gen_pattern(rng, sp)}
            yield RLIST, {"stmt": s}
            yield RWITH, {"stmt": s, "pat": gen_pattern(rng, stmt_resources(s))}
            yield ALIST_FLAGS, {"stmt": s, "flags": [rng.random() < 0.5, rng.random() < 0.5]}
        if k % 12 == 0:   # the model sweeps the whole catalogue once per Action pattern (~20 ms each)
            yield DOC_ACTIONS, {"doc": gen_doc(rng, cat, plain_actions=True)}
        if k % 40 == 6:   # same cost per Action pattern, plus one more sweep for the difference
            yield DOC_IAM, {"doc": gen_doc(rng, iam_mix, plain_actions=True), "difference": (k // 40) % 2 == 1}
        if k % 100 == 0:
            yield from undefined_stream(rng, Fresh(rng))


def extra_checks(tier, seed, stats, broken):
    """Leaf fact behind the ASCII model of str.capitalize(): over all of Unicode, a non-ASCII code point never title-cases into a
    prefix of 'Allow'/'Deny' nor lower-cases (initial, medial or final position) into a substring of them."""
    out = []
    words = ("Allow", "Deny")
    for cp in range(128, 0x110000):
        if 0xD800 <= cp <= 0xDFFF:
            continue
        c = chr(cp)
        t = (c + "x").capitalize()[:-1]
        l1 = ("x" + c).capitalize()[1:]
        l2 = ("x" + c + "x").capitalize()[1:-1]
        if any(w.startswith(t) for w in words) or any(m and m in w[1:] for w in words for m in (l1, l2)):
            out.append({"sig": f"capitalize-{cp}", "surface": "str.capitalize (leaf oracle)", "theorem": "C16_effect (ASCII model of capitalize)",
                        "tags": ["unicode-capitalize"], "input": {"code_point": cp}, "impl": [t, l1, l2], "model": None})
            break
    return out
