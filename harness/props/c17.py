"""C17 -- network exposure predicates reflect the address range denoted."""
import copy
import ipaddress
import json

import core
import gen_tables

ID = "C17"
TABLES = ["private_networks"]
BUDGET = {"quick": (4, 60), "thorough": (16, 420)}
EXTRA_TARGETS = ["theories/Net/PublicTable.vo"]
RULE = ("[histories: 30% of the resolve-stage cases resolve once or twice MORE with the same extra_params dict object before the rule is read] " +
        "templates holding ONE rule in one of 8 modelled positions (AWS::EC2::SecurityGroup inline ingress/egress as a single object "
        "and as a list, stand-alone AWS::EC2::SecurityGroupIngress/Egress, AWS::RDS::DBSecurityGroup list member, "
        "AWS::RDS::DBSecurityGroupIngress); the CIDR text is literal or reaches the field through {Ref: P} (parameter Default or "
        "extra_params) and is observed after parse and after resolve(); addresses are drawn from the edges (first-1, first, last, "
        "last+1) of every entry of the running Python's private table and of 100.64.0.0/10, from 0, 2^31, 2^32-1 (2^128-1) and at "
        "random; prefix lengths from {0,1,31,32 (127,128), the table entry's length -1/+0/+1, random}; spellings: /len (with leading "
        "zeros), /netmask, /hostmask, no mask, host bits set, JSON integer; IPv6 full / zero-suppressed / '::' at any zero run / "
        "mixed case / embedded dotted quad; ~25% invalid spellings (leading zeros, 3 or 5 octets, 256, /33, /129, non-contiguous "
        "masks, two '::', 9 groups, 5 hex digits, stray characters, one-character mutations of valid texts). str(IPv6Network) "
        "(print6, RFC 5952 compression) is compared with the running Python's ipaddress on EVERY pattern of zero / non-zero hextets "
        "(all 256, three fillings of the non-zero ones, as /128 and masked at every hextet boundary) and on addresses built from runs: "
        "all zeros, all ones, one zero hextet at each position, two runs of equal length, runs at both ends, a longer run after a "
        "shorter one and the converse, hextets of every digit count (1, f, 10, ff, 100, fff, 1000, ffff), IPv4-looking low 32 bits "
        "(::a.b.c.d, ::ffff:a.b.c.d, 64:ff9b::a.b.c.d), random; every IPv6 field / leaf surface compares the implementation's text "
        "with print6 AND parses it back. Every run also sweeps "
        "every edge address of every table entry x all 33 prefix lengths (is_public) and all 33 / 129 prefix lengths in every "
        "spelling (slash zero). non-trivial = the "
        "text is not already the canonical str() of the network, or it is invalid, or the surface is a predicate; distinct by hash "
        "of (surface, input).")
ASSUMPTIONS = [
    "IPv6 zone identifiers ('%eth0') are outside the model (model answers EUndefined; never generated in the main stream)",
    "prefix-length texts longer than 4300 digits (CPython's int() conversion limit) are not generated",
    "JSON booleans in a CIDR field (Python treats True as the integer 1) are outside the model (EUndefined)",
    "is_public()/ipvN_slash_zero() are observed on fields that hold a network or None (after resolve for Ref), not on unresolved Ref objects",
    "str(IPv6Network) is modelled after CPython 3.12's _compress_hextets / _string_from_ip_int (Net/IPv6Print.v: no dotted-quad tail for "
    "IPv4-mapped addresses, which CPython 3.13 prints); the model's text is compared with the running Python's on every run, so a "
    "Python that prints differently is reported, not assumed",
]
MODELLED = ("hand-written Gallina models, tied by differential execution: parse4/print4 (IPv4 text <-> network incl. netmask and hostmask "
            "forms), parse6/print6_full/print6 (IPv6 text -> network, uncompressed printing, RFC 5952 compressed printing = str()), mk_net masking, slash_zero, is_public over the "
            "private-network table. The table itself (14 networks + 100.64.0.0/10) and the two '/0' constants are GENERATED from the "
            "running ipaddress module / pycfmodel.constants (gen/PrivateNets.v) after comparing the AST of IPv4Network.is_global, "
            "_BaseNetwork.is_private and _BaseNetwork.__contains__ with the code the model follows. Leaf oracle: none (str(IPv6Network) is modelled "
            "by print6, proved to parse back to the network for all 2^128*129 networks, and compared with ipaddress's text). The bitwise masking `int(addr) & int(netmask)` of ipaddress is "
            "modelled arithmetically ((x / 2^(W-l)) * 2^(W-l)); C17_masking_is_bitwise proves the two equal, the rest of ipaddress's "
            "text handling is tied by correspondence.")

EC2_KINDS = ["sg_in_one", "sg_in_list", "sg_eg_one", "sg_eg_list", "in_res", "eg_res"]
RDS_KINDS = ["rds_sg", "rds_in"]
FILLER = {"IpProtocol": "tcp", "CidrIp": "10.1.0.0/16"}
RDS_FILLER = {"CIDRIP": "10.1.0.0/16"}

_TABLE = None


def table():
    global _TABLE
    if _TABLE is None:
        _TABLE = gen_tables.live_or_snapshot("private_networks_table", gen_tables.private_networks_table)
    return _TABLE


# ---------------------------------------------------------------------------------------------
# implementation side: build the template, run the public API, pick the rule object

def build_template(x):
    kind = x["kind"]
    params, extra = {}, {}

    def field(name, pname, txt):
        if txt is None:
            return {name: None} if x.get("explicit_null") else {}
        if x["via"] == "literal":
            return {name: txt}
        if x["via"] == "sub_local":
            # the text is assembled by Fn::Sub from the expression's OWN variables; template parameters of the same names exist and
            # must lose (seeded change C17-r4m2: the merge order of Fn::Sub reversed, so `${Bits}` took the parameter's 16)
            params["Net"] = {"Type": "String", "Default": "10.9.8.7"}
            params["Bits"] = {"Type": "String", "Default": "16"}
            if isinstance(txt, str) and "/" in txt and "$" not in txt:
                a, b = txt.split("/", 1)
                return {name: {"Fn::Sub": ["${Net}/${Bits}", {"Net": a, "Bits": b}]}}
            return {name: {"Fn::Sub": ["${Net}", {"Net": txt}]}}
        if x["via"] == "ref_none":
            # "nothing supplied" said explicitly: the caller's dict carries the key with None, the Default is the value
            # (seeded change C17-r5m2 let the raw supplied object override the processed one)
            params[pname] = {"Type": "String", "Default": txt}
            extra[pname] = None
        elif x["via"] == "select_list" and isinstance(txt, str) and "," not in txt:
            # a CommaDelimitedList supplied as ONE text, the range picked by position
            params[pname] = {"Type": "CommaDelimitedList", "Default": "192.0.2.1/32"} if x.get("shadowed_default") else {"Type": "CommaDelimitedList"}
            extra[pname] = "198.51.100.7/32," + txt + ",203.0.113.0/24"
            return {name: {"Fn::Select": [1, {"Ref": pname}]}}
        elif x["via"] in ("ref_default", "select_list"):
            params[pname] = {"Type": "String", "Default": txt}
        else:
            params[pname] = {"Type": "String", "Default": "10.9.8.7/32"} if x.get("shadowed_default") else {"Type": "String"}
            extra[pname] = txt
        return {name: {"Ref": pname}}

    if kind in RDS_KINDS:
        rule = {}
        rule.update(field("CIDRIP", "P4", x.get("cidr4")))
        if x.get("gname") is not None:
            rule["EC2SecurityGroupName"] = x["gname"]
        if x.get("gid") is not None:
            rule["EC2SecurityGroupId"] = x["gid"]
        if x.get("gowner") is not None:
            # the account that owns a source group is not a source: alone it leaves the rule open (audit experiment 5)
            rule["EC2SecurityGroupOwnerId"] = x["gowner"]
        if kind == "rds_sg":
            rules = [RDS_FILLER, rule] if x.get("pos") else [rule, RDS_FILLER]
            res = {"Type": "AWS::RDS::DBSecurityGroup", "Properties": {"GroupDescription": "d", "DBSecurityGroupIngress": rules}}
        else:
            rule["DBSecurityGroupName"] = "db"
            res = {"Type": "AWS::RDS::DBSecurityGroupIngress", "Properties": rule}
    else:
        rule = {"IpProtocol": "tcp"}
        rule.update(field("CidrIp", "P4", x.get("cidr4")))
        rule.update(field("CidrIpv6", "P6", x.get("cidr6")))
        if kind in ("sg_in_one", "sg_eg_one", "sg_in_list", "sg_eg_list"):
            key = "SecurityGroupIngress" if "_in_" in kind else "SecurityGroupEgress"
            val = rule if kind.endswith("_one") else ([FILLER, rule] if x.get("pos") else [rule, FILLER])
            res = {"Type": "AWS::EC2::SecurityGroup", "Properties": {"GroupDescription": "d", key: val}}
        elif kind == "in_res":
            rule["GroupId"] = "sg-1"
            res = {"Type": "AWS::EC2::SecurityGroupIngress", "Properties": rule}
        else:
            rule["GroupId"] = "sg-1"
            res = {"Type": "AWS::EC2::SecurityGroupEgress", "Properties": rule}
    t = {"Resources": {"R": res}}
    if params:
        t["Parameters"] = params
    return t, extra


def load(x):
    """-> (resource, rule object) after the stage asked for."""
    import pycfmodel
    t, extra = build_template(x)
    m = pycfmodel.parse(t)
    if x["stage"] == "resolve" or x["via"] != "literal":
        e = dict(extra)
        if x.get("again"):
            # a caller that keeps ONE dict of stack parameters and resolves more than once: the answer asked about is the later one
            m.resolve(extra_params=e)
            if x["again"] == 2:
                pycfmodel.parse(copy.deepcopy(t)).resolve(extra_params=e)
        m = m.resolve(extra_params=e)
    r = m.Resources["R"]
    kind = x["kind"]
    pos = 1 if x.get("pos") else 0
    if kind in ("sg_in_one", "sg_in_list"):
        rule = r.Properties.SecurityGroupIngress
    elif kind in ("sg_eg_one", "sg_eg_list"):
        rule = r.Properties.SecurityGroupEgress
    elif kind == "rds_sg":
        rule = r.Properties.DBSecurityGroupIngress
    else:
        rule = r.Properties
    if kind in ("sg_in_list", "sg_eg_list", "rds_sg"):
        rule = rule[pos]
    return r, rule


def expected_class(x):
    return {"sg_in_one": "SecurityGroup", "sg_in_list": "SecurityGroup", "sg_eg_one": "SecurityGroup", "sg_eg_list": "SecurityGroup",
            "in_res": "SecurityGroupIngress", "eg_res": "SecurityGroupEgress", "rds_sg": "RDSDBSecurityGroup",
            "rds_in": "RDSDBSecurityGroupIngress"}[x["kind"]]


def checked(x, r):
    if type(r).__name__ != expected_class(x):
        raise TypeError(f"resource became {type(r).__name__}")


def staged_op(x, parse_op):
    """literal + resolve = stringify and validate again (ops 1703/1704); a Ref delivers the parameter TEXT to the validator."""
    return parse_op + 2 if (x["via"] == "literal" and x["stage"] == "resolve") else parse_op


def text_tags(x):
    t = set(x.get("t", []))
    t.add(x.get("kind", "leaf"))
    t.add(x.get("via", "literal"))
    t.add(x.get("stage", "parse"))
    return t


def other_field_error(rn, x, key, op):
    """The whole rule is validated: a rejected sibling CIDR field rejects the template too."""
    if x.get(key) is None or x.get("kind") in RDS_KINDS:
        return None
    m = core.model_res(rn.call(staged_op(x, op), [x.get(key)]))
    return m if m[0] != "OK" else None


class Field4(core.Surface):
    name = "CidrIp / CIDRIP field value"
    theorem = "C17_masked / C17_denotes / C17_spellings / C17_via_ref"
    frozen = frozenset({"kind", "via", "stage", "t"})

    def impl(self, x):
        def go():
            r, rule = load(x)
            checked(x, r)
            v = rule.CIDRIP if x["kind"] in RDS_KINDS else rule.CidrIp
            return None if v is None else str(v)
        return core.impl_call(go)

    def model(self, rn, x):
        m = core.model_res(rn.call(staged_op(x, 1701), [x.get("cidr4")]))
        o = other_field_error(rn, x, "cidr6", 1702)
        if m[0] != "OK" or o is not None:
            return m if m[0] != "OK" else o
        return ("OK", None if m[1] is None else m[1][2])

    def tags(self, x):
        return text_tags(x) | {"v4"}

    def nontrivial(self, x, i, m):
        return i[0] == "EXC" or (i[1] is not None and i[1] != x.get("cidr4"))


class Field6(core.Surface):
    name = "CidrIpv6 field value"
    theorem = "C17_masked6 / C17_denotes6 / C17_via_ref6 / C17_print6_roundtrip (impl text = print6 of the model network, and parses back to it)"
    frozen = frozenset({"kind", "via", "stage", "t"})
    rn = None

    def impl(self, x):
        def go():
            r, rule = load(x)
            checked(x, r)
            v = rule.CidrIpv6
            return None if v is None else str(v)
        return core.impl_call(go)

    def model(self, rn, x):
        self.rn = rn
        o = other_field_error(rn, x, "cidr4", 1701)
        m = core.model_res(rn.call(staged_op(x, 1702), [x.get("cidr6")]))
        if o is not None or m[0] != "OK":
            return o if o is not None else m
        return ("OK", None if m[1] is None else [m[1][0], m[1][1], m[1][3]])    # address, length, str()

    def agree(self, x, i, m):
        if i[0] != m[0]:
            return False
        if i[0] == "EXC":
            return i[1] == m[1]
        if i[1] is None or m[1] is None:
            return i[1] is None and m[1] is None
        if i[1] != m[1][2]:                     # the text itself: str(IPv6Network) = print6
            return False
        back = core.model_res(self.rn.call(1702, [i[1]], sample=False))
        return back[0] == "OK" and back[1] is not None and back[1][:2] == m[1][:2]

    def tags(self, x):
        return text_tags(x) | {"v6"}

    def nontrivial(self, x, i, m):
        return i[0] == "EXC" or (i[1] is not None and i[1] != x.get("cidr6"))


class SlashZero(core.Surface):
    name = "ipv4_slash_zero() / ipv6_slash_zero()"
    theorem = "C17_slash_zero_iff / C17_slash_zero6_iff / C17_absent_false"
    frozen = frozenset({"kind", "via", "stage", "t"})

    def impl(self, x):
        def go():
            r, rule = load(x)
            checked(x, r)
            out = [rule.ipv4_slash_zero(), rule.ipv6_slash_zero()]
            if x["kind"] in ("in_res", "eg_res"):     # the resource-level wrappers must say the same
                out2 = [r.ipv4_slash_zero(), r.ipv6_slash_zero()]
                if out2 != out:
                    return {"properties": out, "resource": out2}
            return out
        return core.impl_call(go)

    def model(self, rn, x):
        # stage/via do not matter for the model beyond acceptance: the stored network is the same (C17_via_ref)
        a = core.model_res(rn.call(staged_op(x, 1701), [x.get("cidr4")]))
        if a[0] != "OK":
            return a
        b = core.model_res(rn.call(staged_op(x, 1702), [x.get("cidr6")]))
        if b[0] != "OK":
            return b
        return core.model_res(rn.call(1705, [x.get("cidr4"), x.get("cidr6")]))

    def tags(self, x):
        return text_tags(x) | {"slash-zero"}


class Public(core.Surface):
    name = "DBSecurityGroupIngress.is_public()"
    theorem = "C17_public_iff / C17_private_not_public"
    frozen = frozenset({"kind", "via", "stage", "t"})

    def impl(self, x):
        def go():
            r, rule = load(x)
            checked(x, r)
            return rule.is_public()
        return core.impl_call(go)

    def model(self, rn, x):
        a = core.model_res(rn.call(staged_op(x, 1701), [x.get("cidr4")]))
        if a[0] != "OK":
            return a
        t = table()
        return core.model_res(rn.call(1706, [x.get("cidr4"), x.get("gname"), x.get("gid"), list(t["shared"]),
                                             [list(p) for p in t["private"]]]))

    def tags(self, x):
        return text_tags(x) | {"is-public"}


class Leaf4(core.Surface):
    name = "pycfmodel.model.types.LooseIPv4Network(text)"
    theorem = "C17_denotes (model parse4 = the validator of every IPv4 CIDR field)"

    def impl(self, x):
        def go():
            from pycfmodel.model.types import LooseIPv4Network
            try:
                n = LooseIPv4Network(x["text"])
            except ValueError as e:
                raise ValueError(str(e)) from None
            return [int(n.network_address), n.prefixlen, str(n)]
        return core.impl_call(go)

    def model(self, rn, x):
        m = core.model_res(rn.call(1701, [x["text"]]))
        return ("EXC", "EValue", "") if m == ("EXC", "EValidation", "") else m

    def tags(self, x):
        return set(x.get("t", [])) | {"v4", "leaf"}

    def nontrivial(self, x, i, m):
        return i[0] == "EXC" or i[1][2] != x["text"]


class Leaf6(core.Surface):
    name = "pycfmodel.model.types.LooseIPv6Network(text)"
    theorem = "C17_denotes6 / C17_print6_roundtrip (model parse6 = the validator of every IPv6 CIDR field; print6_full = .exploded; print6 = str())"

    def impl(self, x):
        def go():
            from pycfmodel.model.types import LooseIPv6Network
            try:
                n = LooseIPv6Network(x["text"])
            except ValueError as e:
                raise ValueError(str(e)) from None
            return [int(n.network_address), n.prefixlen, n.exploded, str(n)]
        return core.impl_call(go)

    def model(self, rn, x):
        m = core.model_res(rn.call(1702, [x["text"]]))
        return ("EXC", "EValue", "") if m == ("EXC", "EValidation", "") else m

    def tags(self, x):
        return set(x.get("t", [])) | {"v6", "leaf"}

    def nontrivial(self, x, i, m):
        return i[0] == "EXC" or i[1][2] != x["text"]


def wire_safe(v):
    return json.loads(json.dumps(v, default=str))


class Print6(core.Surface):
    name = "str(ipaddress.IPv6Network((address, prefixlen))) / str(IPv6Address(address))"
    theorem = "C17_print6_roundtrip / C17_print6_shape (model print6 = the text Python prints; the text parses back to the network)"

    @staticmethod
    def addr(x):
        try:
            a = int(x["a"], 16)
        except (TypeError, ValueError):
            return None
        return a if 0 <= a < (1 << 128) else None

    def impl(self, x):
        def go():
            a = self.addr(x)
            if x.get("l") is None:
                return str(ipaddress.IPv6Address(a))
            return str(ipaddress.IPv6Network((a, x["l"])))
        return core.impl_call(go)

    def model(self, rn, x):
        a = self.addr(x)
        if a is None or not (x.get("l") is None or isinstance(x["l"], int)):
            return ("EXC", "EUndefined", "")
        if x.get("l") is None:
            return core.model_res(rn.call(1709, [a]))
        m = core.model_res(rn.call(1708, [a, x["l"]]))     # EUndefined unless (a, l) is a network (host bits clear, l <= 128)
        if m[0] == "OK":
            # the clause the theorem states, observed too: the printed text parses back to this very network
            back = core.model_res(rn.call(1702, [m[1]], sample=False))
            if back[0] != "OK" or back[1] is None or back[1][:2] != [a, x["l"]] or back[1][3] != m[1]:
                return ("OK", {"print6": m[1], "does_not_parse_back_to": [a, x["l"]], "but_to": wire_safe(back)})
        return m

    def tags(self, x):
        return set(x.get("t", [])) | {"v6", "print"}

    def nontrivial(self, x, i, m):
        return True


F4, F6, SZ, PUB, L4, L6, P6 = Field4(), Field6(), SlashZero(), Public(), Leaf4(), Leaf6(), Print6()
SURFACES = {s.name: s for s in (F4, F6, SZ, PUB, L4, L6, P6)}


# ---------------------------------------------------------------------------------------------
# generators

def q4(a):
    return ".".join(str((a >> s) & 255) for s in (24, 16, 8, 0))


def interesting4(rng):
    """(address, prefix length) biased to the boundaries of the private table, the shared range and the whole space."""
    t = table()
    r = rng.random()
    if r < 0.55:
        base, plen = rng.choice(t["private"] + [t["shared"]])
        size = 1 << (32 - plen)
        a = rng.choice([base - 1, base, base + 1, base + size - 1, base + size, base + size // 2, base + rng.randrange(size)]) % (1 << 32)
        l = rng.choice([plen - 1, plen, plen, plen + 1, 32, 31, rng.randrange(33)])
        return a, max(0, min(32, l))
    if r < 0.75:
        a = rng.choice([0, 1, (1 << 31) - 1, 1 << 31, (1 << 32) - 1, (1 << 32) - 2, 0x01020304, 0x08080808])
        return a, rng.choice([0, 0, 1, 2, 7, 8, 16, 24, 30, 31, 32])
    return rng.randrange(1 << 32), rng.choice([0, 1, rng.randrange(33), rng.randrange(33), 31, 32])


def spell4(rng, a, l):
    """A valid spelling of (the network of) address a with length l.  Returns (text, tags)."""
    tags = []
    if rng.random() < 0.5:      # host bits
        a2 = a
        if l < 32 and (a & ((1 << (32 - l)) - 1)):
            tags.append("hostbits")
    else:
        a2 = a & ~((1 << (32 - l)) - 1) & 0xFFFFFFFF
    r = rng.random()
    if l == 32 and r < 0.2:
        return q4(a2), tags + ["bare"]
    if r < 0.5:
        ls = str(l)
        if rng.random() < 0.15:
            ls = "0" * rng.choice([1, 2, 5]) + ls
            tags.append("len-leading-zeros")
        return q4(a2) + "/" + ls, tags + ["prefix"]
    if r < 0.8:
        return q4(a2) + "/" + q4((0xFFFFFFFF << (32 - l)) & 0xFFFFFFFF), tags + ["netmask"]
    hm = (1 << (32 - l)) - 1
    # the two ambiguous masks are netmasks: 0.0.0.0 = /0 and 255.255.255.255 = /32; tell the tag, not the length
    return q4(a2) + "/" + q4(hm), tags + ["hostmask"] + (["hostmask-ambiguous"] if l in (0, 32) else [])


BAD4 = ["", "/", "/8", "1.2.3.4/", "01.2.3.4/8", "1.02.3.4", "1.2.3.004", "1.2.3.4.5/8", "1.2.3/8", "1.2.3.256/8", "1.2.3.4/33",
        "1.2.3.4/-1", "1.2.3.4/+8", "1.2.3.4/ 8", " 1.2.3.4/8", "1.2.3.4/8 ", "1.2.3.4/8/8", "1.2.3.4//8", "1.2.3.4/255.0.255.0",
        "1.2.3.4/0.255.0.255", "1.2.3.4/255.255.255.256", "1.2.3.4/0255.0.0.0", "1.2.3.4/1.2.3.4", "1.2.3.4/255.0.0", "1.2.3.4/0x8",
        "0x1.2.3.4/8", "1.2.3.4/8.0", "1..3.4/8", ".1.2.3.4", "1.2.3.4.", "1.2.3.4/٣", "١.2.3.4", "1.2.3.4/²", "1,2,3,4/8",
        "::/0", "::1.2.3.4/8", "1.2.3.4\n", "1.2.3.4/8\n", "1_0.2.3.4", "1.2.3.4/1_0", "1e1.2.3.4", "a.b.c.d/8", "1.2.3.4/a",
        "999.2.3.4", "1.2.3.4/032x", "1.2.3.4/100", "4294967296", "1.2.3.4/128.0.0.1", "256.0.0.0/8", "1.2.3.4/32/"]
ALPHA4 = list("0123456789./") + list("0123456789./") + list(" :abfx%-+,") + ["٣"]


def mutate(rng, s, alphabet):
    if not s:
        return rng.choice(alphabet)
    i = rng.randrange(len(s) + 1)
    r = rng.random()
    if r < 0.35 and i < len(s):
        return s[:i] + s[i + 1:]
    if r < 0.7 and i < len(s):
        return s[:i] + rng.choice(alphabet) + s[i + 1:]
    return s[:i] + rng.choice(alphabet) + s[i:]


def gen_text4(rng):
    """-> (text or int, tags).  ~25% not (necessarily) valid."""
    r = rng.random()
    if r < 0.08:
        return rng.choice(BAD4), ["invalid-corpus"]
    if r < 0.25:
        a, l = interesting4(rng)
        s, _ = spell4(rng, a, l)
        return mutate(rng, s, ALPHA4), ["mutated"]
    if r < 0.28:
        return rng.choice([0, 1, 5, 167772160, (1 << 32) - 1, 1 << 32, -1, rng.randrange(1 << 32)]), ["int"]
    a, l = interesting4(rng)
    return spell4(rng, a, l)


def groups6(a):
    return [(a >> (16 * (7 - i))) & 0xFFFF for i in range(8)]


def spell_addr6(rng, a):
    g = groups6(a)
    tags = []
    style = rng.random()
    def hx(v):
        s = "%x" % v
        if style < 0.25:
            s = "%04x" % v
        elif style < 0.35:
            s = s.rjust(rng.choice([1, 2, 3, 4]), "0") if len(s) < 4 else s
        if rng.random() < 0.3:
            s = s.upper() if rng.random() < 0.5 else "".join(c.upper() if rng.random() < 0.5 else c for c in s)
        return s
    parts = [hx(v) for v in g]
    tail4 = rng.random() < 0.2
    if tail4:
        parts = parts[:6] + [q4((g[6] << 16) | g[7])]
        tags.append("embedded-v4")
        ng = 6
    else:
        ng = 8
    # candidate zero runs among the hextet groups (not inside the dotted tail)
    runs = []
    i = 0
    while i < ng:
        if g[i] == 0:
            j = i
            while j < ng and g[j] == 0:
                j += 1
            for s in range(i, j):
                for e in range(s + 1, j + 1):
                    runs.append((s, e))
            i = j
        else:
            i += 1
    if runs and rng.random() < 0.7:
        s, e = rng.choice(runs)
        left, right = parts[:s], parts[e:]
        txt = ":".join(left) + "::" + ":".join(right)
        tags.append("compressed")
    else:
        txt = ":".join(parts)
        tags.append("full")
    return txt, tags


def interesting6(rng):
    r = rng.random()
    P6 = [(1, 128), (0, 128), (0xFFFF << 32, 96), (0x100 << 112, 64), (0x2001 << 112, 23), (0x20010002 << 96, 48),
          (0x20010db8 << 96, 32), (0x20010010 << 96, 28), (0xfc00 << 112, 7), (0xfe80 << 112, 10)]
    if r < 0.4:
        base, plen = rng.choice(P6)
        size = 1 << (128 - plen)
        a = rng.choice([base - 1, base, base + 1, base + size - 1, base + size, base + rng.randrange(size)]) % (1 << 128)
        l = rng.choice([plen - 1, plen, plen + 1, 0, 1, 64, 127, 128, rng.randrange(129)])
        return a, max(0, min(128, l))
    if r < 0.6:
        return rng.choice([0, 1, (1 << 128) - 1, 1 << 127, (1 << 64), 0x01020304, (1 << 112)]), rng.choice([0, 0, 1, 64, 127, 128])
    # random groups with zero runs
    g = [rng.choice([0, 0, 0, 1, 0xFFFF, rng.randrange(1 << 16)]) for _ in range(8)]
    a = 0
    for v in g:
        a = (a << 16) | v
    return a, rng.choice([0, 1, rng.randrange(129), rng.randrange(129), 64, 127, 128])


def spell6(rng, a, l):
    if rng.random() < 0.5:
        a2 = a
        hb = ["hostbits"] if l < 128 and (a & ((1 << (128 - l)) - 1)) else []
    else:
        a2, hb = a & ~((1 << (128 - l)) - 1) & ((1 << 128) - 1), []
    txt, tags = spell_addr6(rng, a2)
    if l == 128 and rng.random() < 0.2:
        return txt, tags + hb + ["bare"]
    ls = str(l)
    if rng.random() < 0.1:
        ls = "0" * rng.choice([1, 3]) + ls
        tags.append("len-leading-zeros")
    return txt + "/" + ls, tags + hb + ["prefix"]


BAD6 = ["", "::/129", "::/", "/0", ":::/0", "1::2::3/64", ":1::2/64", "1::2:/64", "1:2:3:4:5:6:7:8:9/64", "1:2:3:4:5:6:7/64",
        "1:2:3:4:5:6:7:8::/64", "::1:2:3:4:5:6:7:8/64", "1::2:3:4:5:6:7:8/64", "00001::/64", "g::/64", "::/ffff::", "::/255.0.0.0",
        "::/-1", "::/+1", "::/ 1", ":: /1", "1.2.3.4/8", "::1.2.3/64", "::1.2.3.4.5/64", "1.2.3.4::/64", "::1.2.3.4:5/64",
        "::01.2.3.4/64", "1:2:3:4:5:6:7:1.2.3.4", ":/0", "1:2/0", "::/0/0", "::/٣", "1:2:3:4:5:6:7:8/128/", "::ffff:256.1.1.1",
        "12345::", "1:2:3:4:5:6:7:", ":2:3:4:5:6:7:8", "1:2:3:4::5:6:7:8", "::/0x1", "::x", "1::1.2.3.4.", "fe80::1 /64", "::\n"]
ALPHA6 = list("0123456789abcdefABCDEF:./") * 2 + list(" gx-+,") + ["٣"]


def gen_text6(rng):
    r = rng.random()
    if r < 0.08:
        return rng.choice(BAD6), ["invalid-corpus"]
    if r < 0.25:
        a, l = interesting6(rng)
        s, _ = spell6(rng, a, l)
        s = mutate(rng, s, ALPHA6)
        return s.replace("%", ""), ["mutated"]
    a, l = interesting6(rng)
    return spell6(rng, a, l)


HEXTET_EDGES = [1, 0xf, 0x10, 0xff, 0x100, 0xfff, 0x1000, 0xffff, 0x8000, 0xa, 0xabcd, 0x0db8, 0x2001]


def pack6(g):
    a = 0
    for v in g:
        a = (a << 16) | v
    return a


def print_case(g, l, tags):
    """The address is carried as hex text (128-bit integers do not survive every JSON reader); l None = address only."""
    a = pack6(g)
    if l is not None and l < 128:
        a &= ~((1 << (128 - l)) - 1)
    return {"a": "%x" % a, "l": l, "t": sorted(set(tags))}


def nz(rng):
    return rng.choice(HEXTET_EDGES) if rng.random() < 0.7 else rng.randrange(1, 1 << 16)


def gen_print6(rng):
    """Hextet lists biased to what the compression looks at: where the runs of zero hextets are and how long."""
    r = rng.random()
    tags = []
    if r < 0.04:
        g, tags = rng.choice([[0] * 8, [0xffff] * 8, [0] * 7 + [1], [1] + [0] * 7, [0] * 7 + [0xffff]]), ["extreme"]
    elif r < 0.12:                     # exactly one zero hextet (never shortened), or exactly one non-zero hextet
        g = [nz(rng) for _ in range(8)]
        i = rng.randrange(8)
        if rng.random() < 0.6:
            g[i], tags = 0, ["single-zero"]
        else:
            g, tags = [0] * 8, ["single-nonzero"]
            g[i] = nz(rng)
    elif r < 0.27:                     # two runs of EQUAL length (the left one goes)
        k = rng.choice([1, 2, 2, 3])
        gap = rng.randrange(1, 8 - 2 * k + 1)
        lead = rng.randrange(0, 8 - 2 * k - gap + 1)
        g = [nz(rng) for _ in range(8)]
        for j in range(k):
            g[lead + j] = 0
            g[lead + k + gap + j] = 0
        tags = ["equal-runs"]
    elif r < 0.42:                     # a longer run after a shorter one, or the converse
        k1 = rng.choice([1, 2, 3])
        k2 = rng.randrange(k1 + 1, 7 - k1 + 1)
        if rng.random() < 0.5:
            k1, k2 = k2, k1
        gap = rng.randrange(1, 8 - k1 - k2 + 1)
        lead = rng.randrange(0, 8 - k1 - k2 - gap + 1)
        g = [nz(rng) for _ in range(8)]
        for j in range(k1):
            g[lead + j] = 0
        for j in range(k2):
            g[lead + k1 + gap + j] = 0
        tags = ["unequal-runs"]
    elif r < 0.52:                     # runs at both ends
        k1, k2 = rng.randrange(1, 4), rng.randrange(1, 4)
        g = [0] * k1 + [nz(rng) for _ in range(8 - k1 - k2)] + [0] * k2
        if rng.random() < 0.3 and 8 - k1 - k2 >= 3:
            g[k1 + 1] = 0
        tags = ["both-ends"]
    elif r < 0.64:                     # IPv4-looking low 32 bits
        v4 = rng.choice([0x01020304, 0x7f000001, 0x0a000001, 0xc0a80101, 0xffffffff, 0x00000001, 0x00010000, 0x01000000,
                         rng.randrange(1 << 32)])
        head = rng.choice([[0] * 6, [0] * 5 + [0xffff], [0x64, 0xff9b, 0, 0, 0, 0], [0x2002, nz(rng), nz(rng), 0, 0, 0],
                           [0xfe80, 0, 0, 0, 0x0200, 0x5efe]])
        g = list(head) + [v4 >> 16, v4 & 0xffff]
        tags = ["v4-tail"]
    elif r < 0.9:                      # any pattern of zero / non-zero hextets
        pat = rng.randrange(256)
        g = [0 if (pat >> (7 - i)) & 1 == 0 else nz(rng) for i in range(8)]
        tags = ["pattern"]
    else:
        a = rng.randrange(1 << 128)
        g = [(a >> (16 * (7 - i))) & 0xffff for i in range(8)]
        tags = ["random"]
    q = rng.random()
    if q < 0.15:
        return print_case(g, None, tags + ["address"])
    if q < 0.7:
        return print_case(g, 128, tags)
    return print_case(g, rng.choice([0, 1, 15, 16, 17, 32, 48, 63, 64, 65, 96, 112, 113, 127, rng.randrange(129)]), tags + ["masked"])


def sweep_print6():
    """Every pattern of zero / non-zero hextets, with three fillings of the non-zero ones, as an address, as a /128 and masked at
    every hextet boundary."""
    fills = ([1] * 8, [0xffff, 0x100, 0x10, 0xf, 0x1000, 0xfff, 0xff, 0xabcd], [0x2001, 0xdb8, 0x85a3, 0x8a2e, 0x370, 0x7334, 0xa0b, 0xc0d0])
    for pat in range(256):
        for fi, fill in enumerate(fills):
            g = [0 if (pat >> (7 - i)) & 1 == 0 else fill[i] for i in range(8)]
            yield P6, print_case(g, 128, ["sweep", "pattern"])
            if fi == 0:
                yield P6, print_case(g, None, ["sweep", "pattern", "address"])
            if fi == 1:
                for l in range(0, 128, 16):
                    yield P6, print_case(g, l, ["sweep", "pattern", "masked"])


VIAS = ["literal", "literal", "literal", "ref_default", "ref_extra", "ref_extra", "sub_local", "ref_none", "select_list"]


def gen_group(rng):
    return rng.choice([None, None, "", "sg-name", "default"]), rng.choice([None, None, "", "sg-0123"])


def gen_rule_case(rng):
    """One template-level case record for the EC2 kinds (fields CidrIp / CidrIpv6)."""
    x = {"kind": rng.choice(EC2_KINDS), "via": rng.choice(VIAS),
         "stage": rng.choice(["parse", "resolve"]), "pos": rng.randrange(2)}
    tags = []
    r = rng.random()
    if r < 0.45:
        x["cidr4"], t = gen_text4(rng)
        tags += t
    elif r < 0.85:
        x["cidr6"], t = gen_text6(rng)
        tags += t
    elif r < 0.95:
        x["cidr4"], t = gen_text4(rng)
        x["cidr6"], t6 = gen_text6(rng)
        tags += t + t6
    else:
        tags.append("absent")
        if rng.random() < 0.5:
            x["explicit_null"] = True
    if isinstance(x.get("cidr4"), int):
        x["via"] = "literal"
    if x["via"] in ("ref_extra", "select_list") and rng.random() < 0.5:
        x["shadowed_default"] = True
    if x["via"] != "literal":
        x["stage"] = "resolve"
    if x["stage"] == "resolve" and rng.random() < 0.3:
        x["again"] = rng.choice([1, 1, 2])
        tags.append("again")
    x["t"] = sorted(set(tags))
    return x


def gen_rds_case(rng):
    x = {"kind": rng.choice(RDS_KINDS), "via": rng.choice(VIAS),
         "stage": rng.choice(["parse", "resolve"]), "pos": rng.randrange(2)}
    tags = []
    if rng.random() < 0.85:
        x["cidr4"], tags = gen_text4(rng)
    else:
        tags = ["absent"]
        if rng.random() < 0.3:
            x["explicit_null"] = True
    x["gname"], x["gid"] = gen_group(rng)
    if rng.random() < 0.3:
        x["gowner"] = rng.choice(["123456789012", "", "000000000000"])
    if isinstance(x.get("cidr4"), int):
        x["via"] = "literal"
    if x["via"] != "literal":
        x["stage"] = "resolve"
    if x["stage"] == "resolve" and rng.random() < 0.3:
        x["again"] = rng.choice([1, 1, 2])
        tags.append("again")
    x["t"] = sorted(set(tags))
    return x


def corpus():
    p = core.VERIF / "corpus" / "C17.json"
    if p.exists():
        for c in json.loads(p.read_text()):
            yield SURFACES[c["surface"]], c["input"]


def sweep():
    """Deterministic boundary sweep: every edge address of every table entry x EVERY prefix length (is_public), and every
    prefix length in the three IPv4 spellings / in IPv6 (slash zero)."""
    t = table()
    for base, plen in t["private"] + [t["shared"]]:
        size = 1 << (32 - plen)
        for a in sorted({(base - 1) % (1 << 32), base, (base + 1) % (1 << 32), base + size - 1, (base + size) % (1 << 32), base + size // 2}):
            for l in range(33):
                yield PUB, {"kind": "rds_sg" if (a + l) % 2 else "rds_in", "via": "literal", "stage": "parse", "pos": l % 2,
                            "cidr4": q4(a) + "/" + str(l), "gname": None, "gid": None, "t": ["sweep", "prefix"]}
    for a in (0, 0x01020304, 0xFFFFFFFF):
        for l in range(33):
            for form, txt in (("prefix", str(l)), ("netmask", q4((0xFFFFFFFF << (32 - l)) & 0xFFFFFFFF)), ("hostmask", q4((1 << (32 - l)) - 1))):
                yield SZ, {"kind": EC2_KINDS[(l + a) % 6], "via": "literal", "stage": "parse", "pos": 0,
                           "cidr4": q4(a) + "/" + txt, "t": ["sweep", form]}
    for a in ("::", "::1", "ffff:ffff:ffff:ffff:ffff:ffff:ffff:ffff", "8000::"):
        for l in range(129):
            yield SZ, {"kind": EC2_KINDS[l % 6], "via": "literal", "stage": "resolve" if l % 2 else "parse", "pos": 0,
                       "cidr6": a + "/" + str(l), "t": ["sweep", "prefix"]}


def cases(rng, tier, shard, nshards):
    if shard == 0:
        yield from corpus()
    for k, c in enumerate(sweep()):
        if k % nshards == shard:
            yield c
    for k, c in enumerate(sweep_print6()):
        if k % nshards == shard:
            yield c
    n = {"quick": 3000, "thorough": 12000}[tier]
    for k in range(n):
        x = gen_rule_case(rng)
        if "cidr4" in x and "cidr6" not in x:
            yield F4, x
        elif "cidr6" in x and "cidr4" not in x:
            yield F6, x
        elif "cidr4" in x:
            yield (F4 if k % 2 else F6), x
        yield SZ, x
        y = gen_rds_case(rng)
        yield PUB, y
        if k % 3 == 0:
            yield F4, y
        for _ in range(3):
            t, tg = gen_text4(rng)
            if isinstance(t, str):
                yield L4, {"text": t, "t": sorted(set(tg))}
            t, tg = gen_text6(rng)
            yield L6, {"text": t, "t": sorted(set(tg))}
        for _ in range(2):
            yield P6, gen_print6(rng)


def extra_checks(tier, seed, stats, broken):
    """The table the runner was given must be the table the Coq theorems were instantiated with (gen/PrivateNets.v)."""
    out = []
    t = table()
    want = "Definition PRIVATE4 : list (N * N) := [" + "; ".join(f"({a}, {l})" for a, l in t["private"]) + "]."
    txt = (core.VERIF / "gen" / "PrivateNets.v").read_text()
    if want not in txt or f"Definition SHARED4 : N * N := ({t['shared'][0]}, {t['shared'][1]})." not in txt:
        broken.append({"file": "gen/PrivateNets.v", "theorem": "table given to the runner = generated table",
                       "message": "gen/PrivateNets.v is not the table of the running Python"})
    # independent sanity check of the generator's own notion of 'valid spelling' against the stdlib (not pycfmodel)
    for s in ("1.2.3.4/0.0.0.0", "1.2.3.4/255.255.255.255"):
        ipaddress.IPv4Network(s, strict=False)
    return out
