"""C04 -- parameter binding precedence, list parameters, SSM references, NoEcho masking."""
import copy
import itertools
import json

import core
import resgen
import tplgen
import wire

ID = "C04"
TABLES = ["functions"]
EXTRA_TARGETS = ["theories/Resolver/GenChecks.vo"]
GEN_OBLIGATIONS = ["GenChecks.functions_table_ok (NoEcho markers, pseudo AWS::NoValue)", "GenChecks.sub_regex_ok (SSM syntax)"]
BUDGET = {"quick": (4, 75), "thorough": (16, 480)}
EXHAUSTIVE = {"quick": True, "thorough": True}
RULE = ("(1) Parameter(**d).get_ref_value(v) on the FULL cross product Type x Default x NoEcho x supplied (exhaustive table); "
        "(2) end-to-end templates with declared / undeclared / pseudo-parameter names, supplied and unsupplied values, SSM strings, "
        "references in typed and generic positions; (3) for every NoEcho parameter a fresh random token is supplied: the token must not occur "
        "anywhere in the JSON-mode dump of Conditions+Resources and the result must equal the one obtained with a second token; "
        "(4) has_hardcoded_credentials on resources / IAM users whose credential fields are literals or references to NoEcho parameters, "
        "incl. ONE IAM user whose LoginProfile.Password refers to an unset NoEcho parameter and whose Metadata authentication block holds a literal key / "
        "a reference to a NoEcho parameter with a Default / only marker-valued entries; "
        "(5) histories: one model (or freshly parsed models of one template) resolved with several parameter assignments in a row that differ in exactly "
        "the key its conditions / references depend on (pseudo, undeclared, declared with and without Default), incl. the SAME dict object handed over "
        "again -- every answer must be the one a fresh process gives. "
        "non-trivial = the case involves a declared parameter that is referenced, or a non-default table row; distinct by input hash.")
ASSUMPTIONS = [
    "str() of a float Default is carried as text; list/dict Defaults for scalar parameters are outside the domain (EUndefined)",
    "the secret search covers the WHOLE dump of the resolved model; the secret is always a value SUPPLIED through extra_params (a secret "
    "written as the template's own Default is echoed by the Parameters section like the rest of the template: not searched for)",
    "IAMUser: an empty LoginProfile.Password counts as absent (the code tests truthiness); recorded, not raised",
]
MODELLED = ("Parameter.get_ref_value, the merge {pseudo, declared, extra}, resolve_ssm and both has_hardcoded_credentials methods are "
            "modelled by hand (Template.ref_value/bind_params, Resolve.render_str, Creds.v) and tied by running both")


class RefValueSurface(core.Surface):
    name = "Parameter(**d).get_ref_value(v)"
    theorem = "C04_scalar / C04_list_split / C04_noecho_markers / C04_valueless_total"
    shrinkable = False

    def impl(self, x):
        from pycfmodel.model.parameter import Parameter

        def run():
            p = Parameter(**copy.deepcopy(x["decl"]))
            return resgen.to_wire(p.get_ref_value(copy.deepcopy(x["supplied"])))
        return core.impl_call(run)

    def model(self, rn, x):
        from pycfmodel.model.parameter import Parameter
        try:
            d = Parameter(**copy.deepcopy(x["decl"])).model_dump()
        except Exception:
            return ("EXC", "EUndefined", "")
        d["Default"] = copy.deepcopy(x["decl"].get("Default"))      # the declaration's own Default, not what validation made of it
        d = resgen.to_wire(d)
        return core.model_res(rn.call(103, [d, resgen.to_wire(x["supplied"])]))

    def tags(self, x):
        t = {"type:" + x["decl"]["Type"][:12]}
        if x["decl"].get("NoEcho"):
            t.add("noecho")
        if "Default" in x["decl"]:
            t.add("default")
        if x["supplied"] is not None:
            t.add("supplied")
        return t


class SecretSurface(core.Surface):
    """impl-only observation justified by C04_noecho_noninterference: the model's answer is the constant (no leak, same)."""
    name = "secret search in parse(t).resolve(extra + {S: token})"
    theorem = "C04_noecho_noninterference / C04_noecho_markers"
    shrinkable = True

    def impl(self, x):
        import pycfmodel

        def run():
            m = pycfmodel.parse(copy.deepcopy(x["template"]))
            outs = []
            for tok in (x["token1"], x["token2"]):
                extra = dict(copy.deepcopy(x["extra"]))
                for s in x["secrets"]:
                    extra[s] = tok
                r = m.resolve(extra)
                # the WHOLE resolved model: the token is handed in through extra_params only, so it has no business anywhere --
                # not in Conditions / Resources and not in the echoed Parameters, Outputs, Metadata ... either (audit experiment 3:
                # the passed value recorded as the parameter's Default of the resolved model went unnoticed)
                outs.append(json.dumps(r.model_dump(mode="json"), sort_keys=True, default=str))
            return {"leak": x["token1"] in outs[0], "same": outs[0] == outs[1]}
        return core.impl_call(run)

    def model(self, rn, x):
        import pycfmodel
        try:
            m = pycfmodel.parse(copy.deepcopy(x["template"]))
        except Exception:
            return ("EXC", "EUndefined", "")
        extra = dict(x["extra"])
        for s in x["secrets"]:
            extra[s] = x["token1"]
        r = core.model_res(rn.call(102, tplgen.model_args(m, extra, x["template"])))
        if r[0] != "OK":
            return ("EXC", "EUndefined", "")     # failing resolutions are C01/C02/C05's business
        leak = x["token1"] in json.dumps(wire.jsonable(r[1]), default=str)
        return ("OK", {"leak": leak, "same": True})

    def agree(self, x, i, m):
        if i[0] == "EXC":
            return True       # error behaviour is compared by the E2E surface
        return super().agree(x, i, m)

    def tags(self, x):
        return {"noecho", "secret"}


class HcSurface(core.Surface):
    name = "resolve(extra).Resources[id].has_hardcoded_credentials()"
    theorem = ("C04_hc_resource_iff / C04_hc_user_iff / C04_hc_user_password_does_not_mask_metadata / "
               "C04_marker_only_from_unset_noecho / C04_set_noecho_ref_reported")
    shrinkable = True
    frozen = frozenset({"rid"})

    def impl(self, x):
        import pycfmodel

        def run():
            r = pycfmodel.parse(copy.deepcopy(x["template"])).resolve(copy.deepcopy(x["extra"]))
            return r.Resources[x["rid"]].has_hardcoded_credentials()
        return core.impl_call(run)

    def model(self, rn, x):
        import pycfmodel
        try:
            m = pycfmodel.parse(copy.deepcopy(x["template"]))
        except Exception:
            return ("EXC", "EUndefined", "")
        r = core.model_res(rn.call(102, tplgen.model_args(m, x["extra"], x["template"])))
        if r[0] != "OK":
            return ("EXC", "EUndefined", "")
        res = r[1]["Resources"].get(x["rid"])
        if res is None:
            return ("EXC", "EKey", "")
        md = res.get("Metadata")
        if res.get("Type") == "AWS::IAM::User":
            props = res.get("Properties") or {}
            return core.model_res(rn.call(106, [props.get("LoginProfile"), md]))
        return core.model_res(rn.call(105, [md]))

    def tags(self, x):
        return {"hc"}


REFV, SECRET, HC = RefValueSurface(), SecretSurface(), HcSurface()
E2E = tplgen.E2ESurface("C04_precedence (through CFModel.resolve)")
SEQ = tplgen.SequenceE2ESurface("C04_precedence (bindings are a function of the template and THIS call's extra_params: no hypothesis on earlier calls)")
SURFACES = {s.name: s for s in (REFV, SECRET, HC, E2E, SEQ)}

TYPES = ["String", "Number", "List<Number>", "CommaDelimitedList", "AWS::SSM::Parameter::Value<String>"]
DEFAULTS = ["<absent>", "", 0, "a,b", 5, "x", True, 1.5, "1,2,3"]
NOECHO = ["<absent>", False, True, "true"]
SUPPLIED = [None, "s", "p,q", 7, ["l1", "l2"], "", 0, True, "TRUE"]


def table():
    for ty, df, ne, sp in itertools.product(TYPES, DEFAULTS, NOECHO, SUPPLIED):
        d = {"Type": ty}
        if df != "<absent>":
            d["Default"] = df
        if ne != "<absent>":
            d["NoEcho"] = ne
        yield REFV, {"decl": d, "supplied": sp}


def gen_hc_case(rng):
    secret_decl = {"Type": "String", "NoEcho": True}
    if rng.random() < 0.4:
        secret_decl["Default"] = rng.choice(["dflt", "", 0])
    params = {"Secret": secret_decl, "Plain": {"Type": "String", "Default": "plain"}}
    if rng.random() < 0.3:
        params["Secret2"] = {"Type": "String", "NoEcho": "true"}

    def cred():
        k = rng.random()
        if k < 0.35:
            return {"Ref": "Secret"}
        if k < 0.45:
            return {"Ref": "Secret2"} if "Secret2" in params else {"Ref": "Secret"}
        if k < 0.6:
            return {"Ref": "Plain"}
        if k < 0.8:
            return rng.choice(["hardcoded", "", "NO_ECHO_NO_DEFAULT", "NO_ECHO_WITH_VALUE"])
        return {"Fn::Sub": "${Secret}"}
    auth = {}
    for name in rng.sample(["a1", "a2", "a3"], rng.randint(0, 3)):
        entry = {"type": "basic"}
        for f in rng.sample(["accessKeyId", "password", "secretKey", "username"], rng.randint(0, 4)):
            entry[f] = cred()
        auth[name] = entry
    md = {}
    if rng.random() < 0.85:
        md["AWS::CloudFormation::Authentication"] = auth
    if rng.random() < 0.3:
        md["Other"] = {"x": "y"}
    if rng.random() < 0.5:
        res = {"Type": "AWS::IAM::User", "Properties": {}}
        if rng.random() < 0.7:
            res["Properties"]["LoginProfile"] = {"Password": cred()}
        if rng.random() < 0.4:
            res["Properties"]["UserName"] = "u"
    else:
        res = {"Type": rng.choice(["AWS::EC2::Instance", "AWS::S3::Bucket", "Custom::X"]), "Properties": {}}
    if md or rng.random() < 0.5:
        res["Metadata"] = md
    extra = {}
    if rng.random() < 0.35:
        extra["Secret"] = rng.choice(["supplied-secret", ""])
    return {"template": {"Parameters": params, "Resources": {"R": res}}, "extra": extra, "rid": "R"}


CRED_FIELDS = ["accessKeyId", "password", "secretKey"]


def hc_user_combo(kind, rng=None, supplied=False):
    """ONE AWS::IAM::User that combines a LoginProfile.Password = Ref to an UNSET NoEcho parameter (the forgiven marker) with a
    Metadata authentication block that holds  a: a literal key;  b: a Ref to a NoEcho parameter WITH a Default;
    c: only marker-valued entries (Ref / Sub of the unset parameter, the marker spelled out).  The password must neither
    be reported by itself nor mask the verdict of the Metadata (C04_hc_user_password_does_not_mask_metadata)."""
    pick = (lambda seq: rng.choice(seq)) if rng else (lambda seq: seq[0])
    params = {"Secret": {"Type": "String", "NoEcho": True},
              "Keyed": {"Type": "String", "NoEcho": pick([True, "true"]), "Default": pick(["dflt", "", 0])},
              "Plain": {"Type": "String", "Default": "plain"}}

    def marker_valued():
        return pick([{"Ref": "Secret"}, "NO_ECHO_NO_DEFAULT", {"Fn::Sub": "${Secret}"}])
    names = ["a1", "a2", "a3"][: (rng.randint(1, 3) if rng else 2)]
    auth = {}
    for name in names:
        entry = {"type": pick(["basic", "S3"])}
        fields = rng.sample(CRED_FIELDS, rng.randint(0, 3)) if rng else CRED_FIELDS[:2]
        for f in fields:
            entry[f] = marker_valued()
        if rng is None or rng.random() < 0.5:
            entry["username"] = pick(["admin", {"Ref": "Plain"}])        # not a credential field: never reported
        auth[name] = entry
    if kind in "ab":
        target = auth[pick(names) if rng else names[-1]]
        field = pick(CRED_FIELDS) if rng else "secretKey"
        target[field] = (pick(["hardcoded", "", "NO_ECHO_WITH_DEFAULT", "no_echo_no_default", {"Ref": "Plain"}]) if kind == "a"
                         else pick([{"Ref": "Keyed"}, {"Fn::Sub": "${Keyed}"}]))
    res = {"Type": "AWS::IAM::User",
           "Properties": {"LoginProfile": {"Password": {"Ref": "Secret"}}},
           "Metadata": {"AWS::CloudFormation::Authentication": auth}}
    if rng and rng.random() < 0.3:
        res["Properties"]["LoginProfile"]["PasswordResetRequired"] = True
    if rng and rng.random() < 0.3:
        res["Metadata"]["Other"] = {"x": "y"}
    extra = {"Secret": pick(["supplied-secret", ""])} if supplied else {}
    return {"template": {"Parameters": params, "Resources": {"R": res}}, "extra": extra, "rid": "R"}


def gen_hc_user_combo(rng):
    # mostly with the parameter unset; now and then a value is supplied, which turns every reference into NO_ECHO_WITH_VALUE
    return hc_user_combo(rng.choice("abc"), rng, supplied=rng.random() < 0.12)


def gen_secret_case(rng):
    x = tplgen.gen_template(rng)
    t = x["template"]
    params = t.setdefault("Parameters", {})
    secrets = []
    for n, d in params.items():
        if d.get("NoEcho") in (True, "true"):
            secrets.append(n)
    if not secrets:
        params["Secret"] = {"Type": rng.choice(["String", "CommaDelimitedList", "Number"]), "NoEcho": True}
        if rng.random() < 0.4:
            params["Secret"]["Default"] = "sdflt"
        secrets.append("Secret")
        # make sure it is referenced somewhere
        t["Resources"]["RS"] = {"Type": "Custom::Uses", "Properties": {
            "A": {"Ref": "Secret"}, "B": {"Fn::Sub": "pre-${Secret}-post"}, "C": {"Fn::Join": ["", ["x", {"Ref": "Secret"}]]},
            "D": {"Fn::Base64": {"Ref": "Secret"}}, "E": [{"Fn::Select": [0, [{"Ref": "Secret"}]]}]}}
        conds = t.setdefault("Conditions", {})
        conds["UsesSecret"] = {"Fn::Equals": [{"Ref": "Secret"}, "guess"]}
    tok1 = "TOK" + "".join(rng.choice("abcdefghjkmnpqrstuvwxyz23456789") for _ in range(14))
    tok2 = "TOK" + "".join(rng.choice("abcdefghjkmnpqrstuvwxyz23456789") for _ in range(14))
    return {"template": t, "extra": {k: v for k, v in x["extra"].items() if k not in secrets}, "secrets": secrets,
            "token1": tok1, "token2": tok2}


def corpus():
    p = core.VERIF / "corpus" / "C04.json"
    if p.exists():
        for c in json.loads(p.read_text()):
            yield SURFACES[c["surface"]], wire.unjson(c["input"])


def cases(rng, tier, shard, nshards):
    resgen.check_alphabet()
    if shard == 0:
        yield from corpus()
        for kind in "abc":                       # the three combinations, fixed (whatever the seed), unset and supplied
            yield HC, hc_user_combo(kind)
            yield HC, hc_user_combo(kind, supplied=True)
    for k, c in enumerate(table()):
        if k % nshards == shard:
            yield c
    n = {"quick": 700, "thorough": 7000}[tier]
    for k in range(n):
        yield HC, gen_hc_case(rng)
        if k % 4 == 0:
            yield HC, gen_hc_user_combo(rng)
        yield SECRET, gen_secret_case(rng)
        yield E2E, tplgen.gen_template(rng)
        if k % 2 == 0:
            yield SEQ, tplgen.gen_sensitive_sequence(rng)
        elif k % 4 == 1:
            x = tplgen.gen_template(rng)
            e2 = tplgen.vary_extra(rng, x)
            yield SEQ, {"template": x["template"], "extras": [x["extra"], e2, {}, x["extra"]][: rng.choice([2, 3, 4])], "fresh_models": rng.random() < 0.5}
