"""C14 -- resource type dispatch is exact and strict."""
import copy
import json

import core
import schemagen

ID = "C14"
TABLES = ["schema", "functions"]
BUDGET = {"quick": (4, 50), "thorough": (16, 400)}
EXTRA_TARGETS = ["theories/Typed/SchemaChecks.vo", "theories/Typed/DispatchTable.vo"]
GEN_OBLIGATIONS = [
    "Typed/SchemaChecks.v:Schema_types (the 18 known Type strings are all still modelled; the live list may be longer)", "Typed/SchemaChecks.v:Schema_types_distinct",
    "Typed/SchemaChecks.v:Schema_discriminator", "Typed/SchemaChecks.v:Schema_modelled_strict (extra=forbid, Literal Type, subclass of Resource)",
    "Typed/SchemaChecks.v:Schema_properties_required", "Typed/SchemaChecks.v:Schema_extra (allow: PolicyDocument, GenericResource, Generic, FunctionDict)",
    "Typed/SchemaChecks.v:Schema_strict_default", "Typed/SchemaChecks.v:Schema_union_order", "Typed/SchemaChecks.v:Schema_resolvable",
    "Typed/SchemaChecks.v:Schema_wf", "Typed/SchemaChecks.v:Schema_hooks", "Typed/SchemaChecks.v:Schema_all_resources",
    "Typed/SchemaChecks.v:Schema_types_fixed (render_str ps t = t for every modelled type, any ps)",
]
RULE = ("for each of the 18 modelled types a valid definition derived from the generated schema (random subset of optional properties, "
        "function objects in Resolvable positions), then every damage of it: each required property dropped, an unknown property added at "
        "each nesting level (resource, Properties, Policy, PolicyDocument, Statement, Principal, StatementCondition, Tag, security-group "
        "rule), properties retyped to a two-key object / a list of objects / a number; arbitrary other Type strings incl. near misses in "
        "case and spacing, absent / null / non-string Type; each with strict mode on and off.  resources_filtered_by_type with class, "
        "string and mixed collections (list, tuple, set); classes before/after resolve() (with SSM-shaped and boolean-spelled Type strings "
        "and parameters supplying modelled type strings) and expand_actions().  non-trivial = damaged definition, or unmodelled / odd Type, "
        "or a filter answer that is neither empty nor everything, or a template with >= 2 classes; distinct by hash of (surface, input).")
ASSUMPTIONS = [
    "pydantic's validation engine is an oracle: 'class C accepts definition r in isolation' is computed per case with "
    "TypeAdapter(C).validate_python (never through CFModel / parse) and instantiates the Section variables class_accepts / generic_accepts; "
    "the theorems hold for ANY such verdicts",
    "where the generated schema makes the verdict unambiguous (required property dropped; unknown property at an extra=forbid level; a value "
    "no validator of the field type can take) the harness additionally REQUIRES a ValidationError in strict mode (must_reject)",
    "allowed_types of resources_filtered_by_type is a list / tuple / set of strings and classes (a bare string would make `in` a substring test)",
    "definitions are JSON-like data without floats; logical ids are distinct",
    "resolve(): which resources survive their Condition is C02's subject; classes are compared for the resources present in the result",
]
MODELLED = ("pydantic's engine is not translated (oracle verdicts, see assumptions); the dispatch order, the strictness switch, property "
            "keeping, the filter and the Type-preservation of resolve / expand_actions are hand-written models (Typed/Dispatch.v) tied to "
            "parse / resources_filtered_by_type / resolve / expand_actions by running both on the same definitions; the (Type, class) "
            "table and the class hierarchy are generated (gen/Schema.v) and re-proved on every run")

NEAR = ["aws::s3::bucket", "AWS::S3::Bucket ", " AWS::S3::Bucket", "AWS::S3::bucket", "AWS:S3:Bucket", "AWS::S3::Buckets", "AWS::S3::Bucke",
        "AWS::S3::Bucket\n", "AWS::S3::Bucket\t", "AWS::S3::Bucket::", "Custom::Thing", "", "AWS::IAM::role", "AWS::IAM::Role ",
        "AWS::EC2::Securitygroup", "ＡＷＳ::S3::Bucket", "AWS::S3::Bucket​", "AWS::KMS::Key.", "AWS::SNS::Topic", "True", "TRUE",
        "false", "{{resolve:ssm:/t:1}}", "AWS::CloudFormation::Stack", "é中", "AWS::NoValue"]
ODD_TYPES = [None, 5, True, ["AWS::S3::Bucket"], {"Ref": "T"}, {"a": 1, "b": 2}, 0, []]


def _strict(flag):
    from pycfmodel.model.resources.generic_resource import GenericResource

    class _Ctx:
        def __enter__(self):
            self.old = GenericResource._strict
            if flag is not None:         # None: leave the library's default in force
                GenericResource._strict = flag

        def __exit__(self, *a):
            GenericResource._strict = self.old
            return False
    return _Ctx()


def _classes():
    """name -> class for every class of the table and every class of their MROs (CustomModel, Property, BaseModel, object)"""
    t = schemagen.table()
    out = {"str": str, "int": int}
    for c in t["classes"].values():
        for k in c["cls"].__mro__:
            out.setdefault(k.__name__, k)
    return out


def verdicts(r):
    """(class verdict, generic verdict): the engine's answers for the dedicated class (False when there is none) and for
    GenericResource with the strictness check disabled -- each on the definition in isolation."""
    from pydantic import TypeAdapter, ValidationError
    from pycfmodel.model.resources.generic_resource import GenericResource
    t = schemagen.table()
    vc = False
    ty = r.get("Type") if isinstance(r, dict) else None
    cls = dict(t["modelled"]).get(ty) if isinstance(ty, str) else None
    if cls is not None:
        try:
            TypeAdapter(t["classes"][cls]["cls"]).validate_python(copy.deepcopy(r))
            vc = True
        except ValidationError:
            vc = False
    with _strict(False):
        try:
            TypeAdapter(GenericResource).validate_python(copy.deepcopy(r))
            vg = True
        except ValidationError:
            vg = False
    return vc, vg


class ParseSurface(core.Surface):
    name = "type(parse(t).Resources[id])"
    theorem = "C14_exact / C14_strict_rejects / C14_nonstrict_downgrade / C14_generic_keeps"
    frozen = frozenset({"strict", "must_reject", "kind"})
    shrinkable = False      # must_reject is a statement about exactly this definition

    def impl(self, x):
        import pycfmodel
        from pycfmodel.model.resources.generic_resource import GenericResource

        def run():
            with _strict(x["strict"]):
                m = pycfmodel.parse({"Resources": {"R": copy.deepcopy(x["resource"])}})
            res = m.Resources["R"]
            kept = []
            if isinstance(res, GenericResource) and res.Properties is not None:
                kept = list(res.Properties.model_dump().keys())
            return [type(res).__name__, kept]
        return core.impl_call(run)

    def model(self, rn, x):
        r = x["resource"]
        if not isinstance(r, dict):
            return ("EXC", "EUndefined", "")
        vc, vg = verdicts(r)
        # strict None = the caller did not touch the switch: the specification says strict ("unless explicitly switched off")
        return core.model_res(rn.call(1401, [x["strict"] is not False, r, vc, vg]))

    def agree(self, x, i, m):
        if not core.Surface.agree(self, x, i, m):
            return False
        if x.get("must_reject") and x["strict"] is not False and not (i[0] == "EXC" and i[1] == "EValidation"):
            return False
        return True

    def tags(self, x):
        r = x["resource"]
        t = {x.get("kind", "?").split(":")[0], {True: "strict", False: "nonstrict", None: "default-strictness"}[x["strict"]]}
        ty = r.get("Type") if isinstance(r, dict) else None
        if not isinstance(ty, str):
            t.add("type-not-str")
        elif ty in dict(schemagen.table()["modelled"]):
            t.add("modelled")
        else:
            t.add("unmodelled")
        return t

    def nontrivial(self, x, i, m):
        return x.get("kind") != "valid"


def _allowed_py(allowed, container):
    classes = _classes()
    out = []
    for kind, v in allowed:
        out.append(classes[v] if kind == "class" and v in classes else v)
    return {"list": list, "tuple": tuple, "set": set}[container](out)


class FilterSurface(core.Surface):
    name = "resources_filtered_by_type(allowed)"
    theorem = "C14_filter_iff"
    frozen = frozenset({"container"})

    def impl(self, x):
        import pycfmodel

        def run():
            m = pycfmodel.parse({"Resources": copy.deepcopy(x["resources"])})
            return list(m.resources_filtered_by_type(_allowed_py(x["allowed"], x["container"])).keys())
        return core.impl_call(run)

    def model(self, rn, x):
        triples = []
        for rid, r in x["resources"].items():
            ty = r.get("Type")
            triples.append([rid, rn.call(1404, [ty]), ty])
        classes = _classes()
        allowed = [[0 if (k == "class" and v in classes) else 1, v] for k, v in x["allowed"]]
        return ("OK", rn.call(1402, [allowed, triples]))

    def tags(self, x):
        return {"filter", x["container"]} | {k for k, _ in x["allowed"]}

    def nontrivial(self, x, i, m):
        return i[0] == "OK" and 0 < len(i[1]) < len(x["resources"])


class PreserveSurface(core.Surface):
    name = "resource classes before / after resolve() and expand_actions()"
    theorem = "C14_preserved_by_resolve / C14_preserved_by_expand"
    frozen = frozenset()

    def impl(self, x):
        import pycfmodel

        def run():
            m = pycfmodel.parse(copy.deepcopy(x["template"]))
            before = {k: type(v).__name__ for k, v in m.Resources.items()}
            r = m.resolve(copy.deepcopy(x["extra"]))
            e = m.expand_actions()
            return {"before": before, "resolve": {k: type(v).__name__ for k, v in r.Resources.items()},
                    "expand": {k: type(v).__name__ for k, v in e.Resources.items()}}
        return core.impl_call(run)

    def model(self, rn, x):
        # the specification: every resource keeps the class the dispatch gave it (a function of its Type string)
        before = {k: rn.call(1404, [r.get("Type")]) for k, r in x["template"]["Resources"].items()}
        self._before = before
        return ("OK", {"before": before, "resolve": before, "expand": before})

    def agree(self, x, i, m):
        if i[0] != "OK":
            # every generated template of this surface is valid (resources built from the live schema, functions only where text is
            # expected): resolve() / expand_actions() raising means the classes were NOT preserved.  (This used to be forgiven as
            # "C05's subject"; seeded change C14-r4m1 -- TypeError for a resource whose logical id is spelled like a function --
            # showed that it hides real class-preservation failures.)
            return False
        iv, mv = i[1], m[1]
        if iv["before"] != mv["before"] or iv["expand"] != mv["expand"]:
            return False
        return all(mv["resolve"].get(k) == c for k, c in iv["resolve"].items())

    def tags(self, x):
        t = {"preserve"}
        for r in x["template"]["Resources"].values():
            ty = r.get("Type")
            if isinstance(ty, str) and ty.startswith("{{resolve:ssm:"):
                t.add("ssm-type")
            if isinstance(ty, str) and ty.lower() in ("true", "false"):
                t.add("boolish-type")
        return t

    def nontrivial(self, x, i, m):
        return i[0] == "OK" and len(set(i[1]["before"].values())) >= 2


PARSE, FILTER, PRESERVE = ParseSurface(), FilterSurface(), PreserveSurface()
SURFACES = {s.name: s for s in (PARSE, FILTER, PRESERVE)}


def prepare(rn):
    t = schemagen.table()
    got = rn.call(1405, None, sample=False)
    assert [tuple(p) for p in got] == t["modelled"], "the Coq table differs from the live classes (gen/Schema.v is stale?)"


def corpus():
    p = core.VERIF / "corpus" / "C14.json"
    if p.exists():
        for c in json.loads(p.read_text()):
            yield SURFACES[c["surface"]], c["input"]


def valid_resource(rng, type_string, resolvable=False):
    g = schemagen.Gen(rng, rich=False, resolvable=resolvable)
    r = g.resource((), 3, type_string)
    return r, g.nodes


def gen_parse_cases(rng, tier, types):
    for ty in types:
        for _ in range({"quick": 2, "thorough": 6}[tier]):
            r, nodes = valid_resource(rng, ty)
            for strict in (True, False):
                yield PARSE, {"strict": strict, "kind": "valid", "must_reject": False, "resource": r}
            cls = dict(schemagen.table()["modelled"])[ty]
            for kind, d, must in schemagen.damages(rng, r, nodes, cls):
                for strict in (True, False) + ((None,) if rng.random() < 0.25 else ()):
                    yield PARSE, {"strict": strict, "kind": kind, "must_reject": must, "resource": d}


def gen_other_types(rng, tier):
    for ty in NEAR + ODD_TYPES:
        g = schemagen.Gen(rng, rich=False)
        base = rng.choice([{"Properties": g.generic(2)}, {"Properties": {"BucketName": "b"}}, {}, {"Properties": {"Foo": [1, {"a": "b"}]}},
                           {"Properties": None}, {"Properties": {"PolicyDocument": {"Version": "2012-10-17", "Statement": []}}}])
        r = dict(base)
        r["Type"] = ty
        for strict in (True, False):
            yield PARSE, {"strict": strict, "kind": "other-type", "must_reject": not (ty is None or isinstance(ty, str)), "resource": r}
    # no Type key at all, generic with resource-level attributes, non-dict Properties
    for r in ({"Properties": {"a": 1}}, {}, {"Type": "Custom::X", "DependsOn": ["A"], "Metadata": {"k": "v"}, "Properties": {"a": {"b": ["c"]}}},
              {"Type": "Custom::X", "Properties": 5}, {"Type": "Custom::X", "Properties": ["a"]}, {"Type": "Custom::X", "Extra": {"k": 1}},
              {"Type": "Custom::X", "Condition": 5}, {"Type": "AWS::S3::Bucket"}, {"Type": "AWS::IAM::User"}, {"Type": "AWS::IAM::Group", "Properties": None}):
        for strict in (True, False):
            yield PARSE, {"strict": strict, "kind": "other-type", "must_reject": False, "resource": r}


def gen_filter_case(rng):
    t = schemagen.table()
    types = [ty for ty, _ in t["modelled"]]
    resources = {}
    for i in range(rng.randint(1, 7)):
        ty = rng.choice(types + ["Custom::Thing", "AWS::SNS::Topic", "aws::s3::bucket"])
        if ty in types:
            r, _ = valid_resource(rng, ty)
        else:
            r = {"Type": ty, "Properties": {"a": "b"}}
        resources[f"R{i}"] = r
    if rng.random() < 0.2:
        resources["NoType"] = {"Properties": {"a": 1}}
    present = [r.get("Type") for r in resources.values() if r.get("Type")]
    allowed = []
    for _ in range(rng.randint(0, 4)):
        k = rng.random()
        if k < 0.35:
            allowed.append(["type", rng.choice(present + types + ["Custom::Thing", "aws::s3::bucket", "AWS::S3", ""])])
        elif k < 0.85:
            allowed.append(["class", rng.choice([c for _, c in t["modelled"]] + ["GenericResource"])])
        else:
            allowed.append(["class", rng.choice(["Resource", "CustomModel", "BaseModel", "Statement", "str", "object"])])
    return FILTER, {"resources": resources, "allowed": allowed, "container": rng.choice(["list", "tuple", "set"])}


SSM_TYPE = "{{resolve:ssm:/t:1}}"


def gen_preserve_case(rng, tricky=False):
    t = schemagen.table()
    types = [ty for ty, _ in t["modelled"]]
    resources = {}
    for i in range(rng.randint(1, 5)):
        ty = rng.choice(types + types + ["Custom::Thing", "AWS::SNS::Topic"])
        if ty in types:
            r, _ = valid_resource(rng, ty, resolvable=True)
        else:
            r = {"Type": ty, "Properties": {"BucketName": rng.choice(["b", {"Ref": "P1"}]), "Action": "s3:*"}}
        resources[f"R{i}"] = r
    extra = {}
    if tricky:
        resources["T"] = {"Type": rng.choice([SSM_TYPE, SSM_TYPE, "TRUE", "False", "{{resolve:ssm:/u:2}}"]),
                          "Properties": rng.choice([{"BucketName": "b"}, {"Foo": "x"}, {}, {}])}
        if rng.random() < 0.8:
            extra["/t:1"] = rng.choice(["AWS::S3::Bucket", "AWS::IAM::User", "AWS::IAM::Group", "AWS::KMS::Key"] + types + ["Custom::Other", "x"])
    if rng.random() < 0.25:
        # logical ids are free text: one spelled like an intrinsic function or a section name, alone or among others
        keep = rng.choice(list(resources))
        odd = rng.choice(["Ref", "Condition", "Type", "Properties", "Resources", "GETATT"])
        if rng.random() < 0.5:
            resources = {odd: resources[keep]}
        else:
            resources[odd] = resources.pop(keep)
    template = {"Resources": resources, "Parameters": {"P1": {"Type": "String", "Default": "pv"}},
                "Conditions": {"C1": {"Fn::Equals": ["a", "a"]}}, "Mappings": {"M": {"k1": {"s": "v"}}}}
    return PRESERVE, {"template": template, "extra": extra}


def cases(rng, tier, shard, nshards):
    if shard == 0:
        yield from corpus()
    t = schemagen.table()
    types = [ty for ty, _ in t["modelled"]]
    mine = [ty for i, ty in enumerate(types) if i % nshards == shard]
    yield from gen_parse_cases(rng, tier, mine)
    if shard == 1 % nshards:
        yield from gen_other_types(rng, tier)
    n = {"quick": 60, "thorough": 400}[tier]
    for k in range(n):
        yield gen_filter_case(rng)
        if k % 2 == 0:
            yield gen_preserve_case(rng, tricky=(k % 8 == 0))
    # a second helping of damaged definitions, types drawn at random
    for _ in range({"quick": 2, "thorough": 10}[tier]):
        yield from gen_parse_cases(rng, "quick", [rng.choice(types)])


def schema_drift_note():
    """ADVISORY (evidence note, never a violation): which property names a modelled class accepts is defined by the code, so the
    regenerated schema follows any change of it and the property -- stated relative to that schema -- keeps holding.  A class that
    starts to accept names it did not accept when harness/schema_baseline.json was recorded (seeded change C14-r5m1: OpenSearch
    inheriting the Elasticsearch-only options through a refactoring) is worth a line for the reader of the evidence file."""
    import json
    try:
        base = json.loads((core.VERIF / "harness" / "schema_baseline.json").read_text())
        live = {k: sorted(f[0] for f in v["fields"]) for k, v in schemagen.table()["classes"].items()}
    except Exception as e:   # noqa
        core.note("C14", f"schema drift not computed: {type(e).__name__}")
        return
    for k in sorted(set(base) | set(live)):
        a, b = set(base.get(k, [])), set(live.get(k, []))
        if k not in live:
            core.note("C14", f"schema drift (advisory): class {k} of the recorded baseline is no longer modelled")
        elif k not in base:
            core.note("C14", f"schema drift (advisory): class {k} is new since the recorded baseline")
        elif a != b:
            core.note("C14", f"schema drift (advisory): class {k} now also accepts {sorted(b - a)} and no longer accepts {sorted(a - b)} "
                             "(relative to harness/schema_baseline.json; what a class accepts is defined by the code)")


def extra_checks(tier, seed, stats, broken):
    """the strictness switch is restored after every case"""
    from pycfmodel.model.resources.generic_resource import GenericResource
    schema_drift_note()
    if GenericResource._strict is not True:
        yield {"sig": "strict-left-off", "surface": "harness", "theorem": "harness", "tags": ["strict-left-off"],
               "input": "GenericResource._strict was not restored", "impl": None, "model": None, "shard": None, "crash": True}
