"""C12 -- condition blocks combine operators, keys, values and qualifiers as IAM specifies."""
import copy
import json

import core
from props import c11, iam_common as ic

ID = "C12"
TABLES = ["operators"]
BUDGET = {"quick": (4, 55), "thorough": (16, 400)}
GEN_OBLIGATIONS = ["Iam/OpTable.v:Operators_table_ok"]
EXTRA_TARGETS = ["theories/Findings/F09F10.vo"]
RULE = ("condition blocks with 1-4 operators drawn from ALL 159 fields of the live class (every qualifier / IfExists combination, "
        "with and without the ':' spelling), 1-3 keys per operator, a single value or a list of 1-3 values per key taken from a "
        "small per-key universe so that keys of one operator get DIFFERENT outcomes; contexts with matching / non-matching values, "
        "lists, empty lists, None, missing keys and wrong-typed values; plus two deliberate streams: for every field a 2-3 key "
        "group in which exactly one key fails, and for every negated field a value list with the context value inside / outside it. "
        "non-trivial = the block validates, the model is defined and at least one key is present in the context; "
        "distinct by hash of (surface, input).")
ASSUMPTIONS = [
    "policy-side parsing is pydantic's: each {operator: {key: value}} part is validated on its own and the typed value read back "
    "from the validated model is what the Coq model receives (so duplicate spellings 'A:B' / 'AB' are merged by the MODEL)",
    "leaf comparisons are those of C11 (Ops.op_test), IgnoreCase with Python's own casefold+NFKD as oracle",
    "BinaryEquals policy values are single base64 strings (a list of them raises TypeError inside validate_binary on this tree: "
    "known defect 11, not part of C12)",
    "the False/None split of a block that is not satisfied depends on evaluation order: operators in class declaration order "
    "(taken from the generated table), keys and values in input order, context values in list order",
]
MODELLED = ("build_root_evaluator / build_eval / __call__ are not translated: eval_block (theories/Iam/Block.v) is hand-written, follows "
            "their algorithm as specified, and is tied to them by running both on the same (block, context) pairs; additionally the "
            "implementation is compared with itself (block verdict vs conjunction of its single-operator single-key parts)")


def _sc():
    from pycfmodel.model.resources.properties.statement_condition import StatementCondition
    return StatementCondition


def block_tags(x):
    t = set()
    live = TABLE()
    for name, groups in x["block"].items():
        q, base, ifx = live.get(name.replace(":", ""), ("none", "?", False))
        if isinstance(groups, dict):
            if len(groups) > 1:
                t.add("multi-key")
            if any(isinstance(v, list) for v in groups.values()):
                t.add("value-list")
            if any(isinstance(v, list) and len(v) > 1 for v in groups.values()) and "Not" in base:
                t.add("negated-list")
        if q != "none":
            t.add("qual:" + q)
        if ifx:
            t.add("ifexists")
    if len(x["block"]) > 1:
        t.add("multi-op")
    return t


_TABLE = None


def TABLE():
    global _TABLE
    if _TABLE is None:
        _TABLE = ic.live_table()
    return _TABLE


def wire_block(x, strings):
    """[[name, [[key, typed value(s)] ...]] ...] -- raises ValidationError / Undefined when a part does not validate."""
    import pydantic
    out = []
    for name, groups in x["block"].items():
        try:
            _sc().model_validate({name: {}})
        except pydantic.ValidationError:
            out.append([name, []])          # the NAME is rejected: the model answers EValidation by itself
            continue
        out.append([name, [[k, ic.typed_policy(name, k, v, strings)] for k, v in groups.items()]])
    return out


class BlockSurface(core.Surface):
    """x = {"block": {operator: {key: value(s)}}, "ctx": {key: context value}}"""
    theorem = "C12_true_iff / C12_key_independent / C12_none_only_if (eval_block)"

    def model(self, rn, x):
        import pydantic
        strings = set()
        try:
            b = wire_block(x, strings)
            ctx = {k: ic.ctxval_to_wire(v, strings) for k, v in ic.ctx_to_py(x["ctx"]).items()}
        except (pydantic.ValidationError, ic.Undefined, TypeError, AttributeError):
            return ("EXC", "EUndefined", "")
        return core.model_res(rn.call(1201, [b, ctx, ic.fold_table(strings)]))

    def tags(self, x):
        return block_tags(x)

    def nontrivial(self, x, i, m):
        keys = {k for g in x["block"].values() if isinstance(g, dict) for k in g}
        return m[0] == "OK" and bool(keys & set(x["ctx"]))


class CallSurface(BlockSurface):
    name = "StatementCondition.model_validate(block)(ctx)"

    def impl(self, x):
        return core.impl_call(lambda: _sc().model_validate(x["block"])(ic.ctx_to_py(x["ctx"])))

    def agree(self, x, i, m):
        if i[0] == "EXC" or m[0] == "EXC":
            return i[0] == m[0] and i[1] == m[1]
        return ic.strict_same(i[1], m[1])


class EvalSurface(BlockSurface):
    name = "StatementCondition.model_validate(block).eval(ctx)"

    def impl(self, x):
        return core.impl_call(lambda: _sc().model_validate(x["block"]).eval(ic.ctx_to_py(x["ctx"])))

    def agree(self, x, i, m):
        if m[0] == "EXC":
            return i[0] == "EXC" and i[1] == m[1]
        if m[1] is None:
            return i[0] == "EXC" and i[1] not in ("TIMEOUT", "EValidation", "ERecursion")
        return i[0] == "OK" and ic.strict_same(i[1], m[1])


class SameObjectSurface(BlockSurface):
    """ONE condition object called with a sequence of contexts (x["ctxs"]): every answer must be the answer a fresh object gives
    -- a per-object memo keyed on the context would confuse True / 1 / 1.0 and False / 0"""
    name = "sc = StatementCondition.model_validate(block); [sc(ctx) for ctx in ctxs]"
    theorem = "C12_total / C12_true_iff (each call is a function of the block and ITS context only)"

    def impl(self, x):
        def run():
            sc = _sc().model_validate(x["block"])
            return [sc(ic.ctx_to_py(c)) for c in x["ctxs"]]
        return core.impl_call(run)

    def model(self, rn, x):
        out = []
        for c in x["ctxs"]:
            m = BlockSurface.model(self, rn, {"block": x["block"], "ctx": c})
            if m[0] != "OK":
                return m
            out.append(m[1])
        return ("OK", out)

    def agree(self, x, i, m):
        if i[0] == "EXC" or m[0] == "EXC":
            return i[0] == m[0] and i[1] == m[1]
        return len(i[1]) == len(m[1]) and all(ic.strict_same(a, b) for a, b in zip(i[1], m[1]))

    def tags(self, x):
        return block_tags({"block": x["block"], "ctx": x["ctxs"][0] if x["ctxs"] else {}}) | {"same-object"}

    def nontrivial(self, x, i, m):
        return m[0] == "OK" and len({repr(v) for v in m[1]}) > 1


class TemplatePathSurface(BlockSurface):
    """the path a linter really takes: the block sits in a statement of a policy in a TEMPLATE, the template is parsed, resolved
    (typed policy values are rendered as text and validated again), optionally expanded, the condition is fetched through
    all_statement_conditions and called -- its answer must be that of the block evaluated directly (audit: condition objects were only
    ever built directly; the template -> Statement -> resolve -> call path was exercised for "does not raise" only)"""
    name = "parse(template).resolve()[.expand_actions()] -> all_statement_conditions[0](ctx)"
    theorem = "C12_true_iff (the block that reaches the evaluator after parse / resolve / expand_actions is the block that was written)"
    frozen = frozenset({"expand"})

    def impl(self, x):
        def run():
            import pycfmodel
            t = {"Resources": {"P": {"Type": "AWS::IAM::ManagedPolicy", "Properties": {"PolicyDocument": {"Version": "2012-10-17", "Statement": [
                {"Effect": "Allow", "Action": "s3:GetObject", "Resource": "*", "Condition": copy.deepcopy(x["block"])}]}}}}}
            m = pycfmodel.parse(t).resolve()
            if x.get("expand"):
                m = m.expand_actions()
            conds = m.Resources["P"].all_statement_conditions
            if len(conds) != 1:
                return {"conditions-found": len(conds)}
            return conds[0](ic.ctx_to_py(x["ctx"]))
        return core.impl_call(run)

    def model(self, rn, x):
        # "the block that was written" is read the way resolve() reads every literal text of a template (C01, pinned by the suite's
        # tests/test_resolver.py: "TRUE" / "True" are rendered "true"): a policy value that spells a boolean reaches the evaluator in
        # lower case.  (False alarm corrected: the surface compared with the block verbatim, so {"ArnNotEquals": {k: ["TRUE"]}} against
        # the context value "TRUE" was reported -- seen only in runs long enough to draw that case.)  Texts holding an SSM dynamic
        # reference are outside this surface (their value is the caller's).
        def rendered(v):
            if isinstance(v, str):
                if "{{resolve:" in v:
                    raise ic.Undefined("dynamic reference")
                return v.lower() if v.lower() in ("true", "false") else v
            if isinstance(v, list):
                return [rendered(z) for z in v]
            if isinstance(v, dict):
                return {k: rendered(z) for k, z in v.items()}
            return v
        try:
            y = dict(x, block=rendered(x["block"]))
        except ic.Undefined:
            return ("EXC", "EUndefined", "")
        return super().model(rn, y)

    def agree(self, x, i, m):
        if i[0] == "EXC" or m[0] == "EXC":
            return i[0] == m[0] and (i[1] == m[1] or {i[1], m[1]} <= {"EValidation", "EValue"})
        return ic.strict_same(i[1], m[1])

    def tags(self, x):
        return block_tags(x) | {"template-path"}


def twin_contexts(rng, ctx):
    """contexts equal under == / hash but different for the operators: True~1~1.0, False~0~0.0; plus repeats"""
    swap = {True: [1, 1.0], False: [0, 0.0]}
    out = [ctx]
    for _ in range(rng.randint(1, 3)):
        c = {}
        for k, v in ctx.items():
            if isinstance(v, bool) and rng.random() < 0.7:
                c[k] = rng.choice(swap[v])
            elif isinstance(v, int) and not isinstance(v, bool) and v in (0, 1) and rng.random() < 0.7:
                c[k] = bool(v)
            else:
                c[k] = v
        out.append(c)
    if rng.random() < 0.5:
        out.append(ctx)
    rng.shuffle(out)
    return out


class ConjunctionSurface(core.Surface):
    """Metamorphic, implementation against itself: the block is True iff every single-operator single-key part is True."""
    name = "block(ctx) is True  <->  all parts {op: {k: v}}(ctx) are True"
    theorem = "C12_conjunction"

    def impl(self, x):
        return core.impl_call(lambda: _sc().model_validate(x["block"])(ic.ctx_to_py(x["ctx"])) is True)

    def model(self, rn, x):
        def parts():
            ctx = ic.ctx_to_py(x["ctx"])
            _sc().model_validate(x["block"])          # the whole block must validate
            eff = {}
            for name, groups in x["block"].items():  # a later spelling of the same operator replaces an earlier one
                eff[name.replace(":", "")] = groups
            return all(_sc().model_validate({name: {k: v}})(ctx) is True for name, groups in eff.items() for k, v in groups.items())
        r = core.impl_call(parts)
        if r[0] == "EXC" and r[1] == "EValidation":
            return ("EXC", "EUndefined", "")
        return r

    def tags(self, x):
        return block_tags(x) | {"conjunction"}

    def nontrivial(self, x, i, m):
        return m[0] == "OK" and sum(len(g) for g in x["block"].values()) > 1


CALL, EVAL, CONJ = CallSurface(), EvalSurface(), ConjunctionSurface()
SAME = SameObjectSurface()
TPATH = TemplatePathSurface()
SURFACES = {s.name: s for s in (CALL, EVAL, CONJ, SAME, TPATH)}


def prepare(rn):
    ic.check_runner_table(rn)


# ---------------------------------------------------------------------------------------------- generators
# per family: keys, the policy-side spellings of a small universe of values, and context values that hit / miss them

T0 = 1577836800
UNIVERSE = {
    "str": {"keys": ["s1", "s2", "s3"],
            "pol": ["a", "b", "A", "ab", "a*", "?", "Straße", "ﬁ"],
            "ctx": ["a", "b", "A", "ab", "x", "", "STRASSE", "fi", "é"]},
    "arn": {"keys": ["a1", "a2", "a3"],
            "pol": ["arn:aws:s3:::b/k", "arn:aws:s3:::b/*", "arn:aws:s3:::?/k", "arn:aws:s3:::c"],
            "ctx": ["arn:aws:s3:::b/k", "arn:aws:s3:::B/k", "arn:aws:s3:::b/j", "arn:aws:s3:::c", "arn:aws:s3:::d/k"]},
    "int": {"keys": ["n1", "n2", "n3"],
            "pol": [0, 1, 2, "2", 5, -1],
            "ctx": [0, 1, 2, 3, 5, -1, True, "2"]},
    "date": {"keys": ["d1", "d2"],
             "pol": [T0, str(T0), "2020-01-01T00:00:00Z", "2020-01-01T01:00:00+01:00", "2020-01-01T00:00:01Z", "2019-12-31T23:59:59Z",
                     "2020-01-01T00:00:00"],
             "ctx": [{"$dt": "2020-01-01T00:00:00+00:00"}, {"$dt": "2019-12-31T19:00:00-05:00"}, {"$dt": "2020-01-01T00:00:01+00:00"},
                     {"$dt": "2019-12-31T23:59:59+00:00"}, {"$dt": "2020-01-01T00:00:00"}, {"$dt": "2021-06-01T12:00:00+00:00"}]},
    "bool": {"keys": ["b1", "b2"], "pol": [True, False, "true", "FALSE"], "ctx": [True, False, 1, 0, "true"]},
    "bytes": {"keys": ["y1", "y2"], "pol": ["YQ==", "YWI=", ""], "ctx": [{"$bytes": "YQ=="}, {"$bytes": "YWI="}, {"$bytes": ""}, "a"]},
    "ip": {"keys": ["i1", "i2", "i3"],
           "pol": ["10.0.0.0/8", "10.1.0.0/16", "10.1.2.3/16", "192.168.0.0/24", "::/0", "2001:db8::/32", "0.0.0.0/0", "foo"],
           "ctx": [{"$net": "10.1.2.0/24"}, {"$net": "10.0.0.0/8"}, {"$net": "192.168.0.0/16"}, {"$net": "192.168.0.128/25"},
                   {"$net": "2001:db8:1::/48"}, {"$net": "11.0.0.0/8"}, {"$net": "0.0.0.0/0"}, "10.1.2.0/24"]},
    "null": {"keys": ["s1", "n1", "i1", "zz"], "pol": [True, False, "true", "false"], "ctx": []},
}
WRONG = [None, 0, "x", True, [], [None], ["a", 1], [["a"]], {"$net": "10.0.0.0/8"}, {"$bytes": "YQ=="}, {"$dt": "2020-01-01T00:00:00+00:00"}]


def spell(rng, name):
    """'ForAllValuesStringLike' is usually written 'ForAllValues:StringLike' in policies."""
    for pfx in ("ForAllValues", "ForAnyValue"):
        if name.startswith(pfx) and rng.random() < 0.5:
            return pfx + ":" + name[len(pfx):]
    return name


def gen_value(rng, fam, base):
    u = UNIVERSE[fam]["pol"]
    if fam == "null" or fam == "bytes":
        return rng.choice(u)
    n = rng.choice([1, 1, 1, 2, 2, 3])
    if n == 1 and rng.random() < 0.55:
        return rng.choice(u)
    if rng.random() < 0.04:
        return []
    return [rng.choice(u) for _ in range(n)]


def gen_ctx_value(rng, fam):
    u = UNIVERSE[fam]["ctx"] or [x for f in ("str", "int", "ip") for x in UNIVERSE[f]["ctx"]]
    r = rng.random()
    if r < 0.45:
        return rng.choice(u)
    if r < 0.8:
        return [rng.choice(u) for _ in range(rng.choice([0, 1, 1, 2, 2, 3]))]
    if r < 0.88:
        return None
    return rng.choice(WRONG)


def gen_block(rng, names):
    block, fams, hints = {}, {}, {}
    for _ in range(rng.choice([1, 1, 2, 2, 3, 4])):
        name = rng.choice(names)
        q, base, ifx = TABLE()[name]
        fam = ic.family_of(base)
        keys = rng.sample(UNIVERSE[fam]["keys"], min(len(UNIVERSE[fam]["keys"]), rng.choice([1, 1, 2, 2, 3])))
        written = spell(rng, name)
        block[written] = {k: gen_value(rng, fam, base) for k in keys}
        for k in keys:
            fams.setdefault(k, fam if fam != "null" else {"s": "str", "n": "int", "i": "ip", "z": "str"}[k[0]])
            if fam not in ("null", "bytes") and rng.random() < 0.12:
                # operands from C11's boundary-biased generator (single value, or a list holding it)
                y = c11.gen_case(rng, base)
                v = y["pol"]
                block[written][k] = v if rng.random() < 0.5 else [v, rng.choice(UNIVERSE[fam]["pol"])]
                if "k" in y["ctx"]:
                    hints[k] = y["ctx"]["k"]
    ctx = {}
    for k, fam in fams.items():
        if rng.random() < 0.82:
            ctx[k] = gen_ctx_value(rng, fam)
            if k in hints and rng.random() < 0.7:
                ctx[k] = hints[k] if rng.random() < 0.6 or isinstance(hints[k], list) else [hints[k], rng.choice(UNIVERSE[fam]["ctx"])]
    if rng.random() < 0.1:
        ctx["unused"] = "x"
    return {"block": block, "ctx": ctx}


def passing_and_failing(name):
    """For the deliberate streams: per field, (policy value, context value that satisfies it, one that does not)."""
    q, base, ifx = TABLE()[name]
    fam = ic.family_of(base)
    neg = "Not" in base
    if fam in ("str", "arn"):
        pol, hit, miss = "a", "a", "b"
    elif fam == "int":
        pol, hit, miss = 2, 2, 7
        if "LessThan" in base:
            hit, miss = (1, 3) if not base.endswith("Equals") else (2, 3)
        if "GreaterThan" in base:
            hit, miss = (3, 1) if not base.endswith("Equals") else (2, 1)
    elif fam == "date":
        pol, hit, miss = "2020-01-01T00:00:00Z", {"$dt": "2020-01-01T00:00:00+00:00"}, {"$dt": "2021-01-01T00:00:00+00:00"}
        if "LessThan" in base:
            hit, miss = {"$dt": "2019-01-01T00:00:00+00:00"}, {"$dt": "2021-01-01T00:00:00+00:00"}
        if "GreaterThan" in base:
            hit, miss = {"$dt": "2021-01-01T00:00:00+00:00"}, {"$dt": "2019-01-01T00:00:00+00:00"}
    elif fam == "bool":
        pol, hit, miss = True, True, False
    elif fam == "bytes":
        pol, hit, miss = "YQ==", {"$bytes": "YQ=="}, {"$bytes": "YWI="}
    elif fam == "ip":
        pol, hit, miss = "10.0.0.0/8", {"$net": "10.1.0.0/16"}, {"$net": "11.0.0.0/8"}
    else:  # null: key present <=> policy true
        pol, hit, miss = True, "v", None
    if neg:
        hit, miss = miss, hit
    return pol, hit, miss


def deliberate(rng, name):
    """one key of 2-3 fails (first, middle or last), or none: the verdict must follow that key"""
    q, base, ifx = TABLE()[name]
    pol, hit, miss = passing_and_failing(name)
    nk = rng.choice([2, 2, 3])
    keys = [f"k{i}" for i in range(1, nk + 1)]
    bad = rng.choice([None] + list(range(nk)))
    aslist = ic.family_of(base) not in ("null", "bytes") and rng.random() < 0.5
    block = {spell(rng, name): {k: ([pol] if aslist else pol) for k in keys}}
    ctx = {}
    for i, k in enumerate(keys):
        v = miss if i == bad else hit
        if ic.family_of(base) == "null" and v is None and q != "none" and rng.random() < 0.5:
            v = [None]
        ctx[k] = [v] if (q != "none" and rng.random() < 0.5 and v is not None) else v
    if bad is not None and ifx and rng.random() < 0.3:
        del ctx[keys[bad]]                         # IfExists: the absent key is satisfied -> the block becomes True
    return {"block": block, "ctx": ctx}


def negated_list(rng, name):
    q, base, ifx = TABLE()[name]
    fam = ic.family_of(base)
    u = UNIVERSE[fam]
    vals = rng.sample(u["pol"], rng.choice([2, 2, 3]))
    r = rng.random()
    pick = {"str": lambda v: v, "arn": lambda v: v, "int": lambda v: int(v),
            "date": lambda v: rng.choice(u["ctx"]), "ip": lambda v: rng.choice(u["ctx"])}[fam]
    c = pick(rng.choice(vals)) if r < 0.6 else rng.choice(u["ctx"])
    if q != "none" and rng.random() < 0.5:
        c = [c, rng.choice(u["ctx"])]
    return {"block": {spell(rng, name): {"k": vals}}, "ctx": {"k": c}}


def corpus():
    p = core.VERIF / "corpus" / "C12.json"
    if p.exists():
        for c in json.loads(p.read_text()):
            yield SURFACES[c["surface"]], c["input"]


def cases(rng, tier, shard, nshards):
    names = list(TABLE())
    negs = [n for n in names if "Not" in TABLE()[n][1]]
    if shard == 0:
        yield from corpus()
    n = {"quick": 2600, "thorough": 24000}[tier]
    for k in range(n):
        r = k % 10
        if r < 6:
            x = gen_block(rng, names)
        elif r < 8:
            x = deliberate(rng, names[(k * nshards + shard) % len(names)])
        else:
            x = negated_list(rng, negs[(k * nshards + shard) % len(negs)])
        yield CALL, x
        if k % 3 == 0:
            yield EVAL, x
        if k % 5 == 2:
            yield TPATH, {"block": x["block"], "ctx": x["ctx"], "expand": k % 2 == 0}
        if k % 2 == 0:
            yield CONJ, x
        if k % 4 == 1:
            yield SAME, {"block": x["block"], "ctxs": twin_contexts(rng, x["ctx"])}
        if k % 16 == 3:
            # Bool / Numeric operators on twins, deliberately
            key = "aws:k"
            blk = rng.choice([{"Bool": {key: "true"}}, {"Bool": {key: "false"}}, {"NumericEquals": {key: 1}}, {"NumericEquals": {key: 0}},
                              {"BoolIfExists": {key: "true"}}, {"Null": {key: "false"}, "Bool": {key: "true"}}])
            seq = [{key: v} for v in rng.sample([True, 1, 1.0, False, 0, 0.0, "true", None], 4)]
            yield SAME, {"block": blk, "ctxs": seq}
