"""Shared by C11/C12: JSON-like case data <-> Python objects for the implementation <-> wire operands for the model.

Case data (plain JSON, so replay files and the shrinker work):
  context value  = null | bool | int | str | [members] | {"$dt": ISO text, with or without offset}
                   | {"$net": CIDR text} | {"$bytes": base64 text}
  policy value   = whatever JSON the template would hold (text, number, bool, list of those, {"Ref": ...})
Model operand (theories/Run/R11.v): null | bool | int | str | bytes | {"dt": [aware, microseconds]} | {"net": [ver, addr, plen]}
  | {"fn": null} | {"other": null}.
The TYPED policy operand is read back from the validated model (pydantic is a leaf oracle), so what is compared is the
operator / combination logic of pycfmodel, not pydantic's parsers."""
import base64
from datetime import datetime, timedelta, timezone
from ipaddress import IPv4Network, IPv6Network, ip_network
from unicodedata import normalize

EPOCH_AWARE = datetime(1970, 1, 1, tzinfo=timezone.utc)
EPOCH_NAIVE = datetime(1970, 1, 1)
US = timedelta(microseconds=1)


class Undefined(Exception):
    """The model declines: the input holds something outside its operand universe (e.g. a float)."""


def ctx_to_py(v):
    if isinstance(v, dict):
        if set(v) == {"$dt"}:
            return datetime.fromisoformat(v["$dt"])
        if set(v) == {"$net"}:
            return ip_network(v["$net"], strict=False)
        if set(v) == {"$bytes"}:
            return base64.b64decode(v["$bytes"], validate=True)
        return {k: ctx_to_py(x) for k, x in v.items()}
    if isinstance(v, list):
        return [ctx_to_py(x) for x in v]
    return v


def py_to_wire(o, strings=None):
    """A Python operand (policy side after validation, or a context value) as a model operand."""
    from pycfmodel.model.base import FunctionDict
    if o is None or o is True or o is False:
        return o
    if isinstance(o, int):
        return o
    if isinstance(o, str):
        if strings is not None:
            strings.add(o)
        return o
    if isinstance(o, (bytes, bytearray)):
        return bytes(o)
    if isinstance(o, datetime):
        if o.tzinfo is not None and o.utcoffset() is not None:
            return {"dt": [True, (o - EPOCH_AWARE) // US]}
        return {"dt": [False, (o.replace(tzinfo=None) - EPOCH_NAIVE) // US]}
    if isinstance(o, IPv4Network):
        return {"net": [4, int(o.network_address), o.prefixlen]}
    if isinstance(o, IPv6Network):
        return {"net": [6, int(o.network_address), o.prefixlen]}
    if isinstance(o, FunctionDict):
        return {"fn": None}
    if isinstance(o, (list, dict)):
        return {"other": None}
    raise Undefined(type(o).__name__)


def ctxval_to_wire(o, strings):
    """Top-level context value: a list stays a list of members (a nested list is 'other')."""
    if isinstance(o, list):
        return [py_to_wire(x, strings) for x in o]
    return py_to_wire(o, strings)


def typed_policy(name, key, raw, strings):
    """The typed value pycfmodel will use for {name: {key: raw}}: read back from the validated model.
    Raises pydantic.ValidationError when the part does not validate."""
    from pycfmodel.model.resources.properties.statement_condition import StatementCondition
    sc = StatementCondition.model_validate({name: {key: raw}})
    (field,) = sc.model_fields_set
    tv = getattr(sc, field)[key]
    if isinstance(tv, list):
        return [py_to_wire(x, strings) for x in tv]
    return py_to_wire(tv, strings)


def fold_table(strings):
    """Leaf oracle for the IgnoreCase operators: Python's own normalize('NFKD', s.casefold())."""
    return {s: normalize("NFKD", s.casefold()) for s in sorted(strings)}


def live_table():
    """The fields of the live class: name -> (qualifier, base, ifexists) read with the code's rule (for generators only)."""
    from pycfmodel.model.resources.properties.statement_condition import StatementCondition
    out = {}
    for name in StatementCondition.model_fields:
        rest, ifx = name, False
        if rest.endswith("IfExists"):
            rest, ifx = rest.replace("IfExists", ""), True
        if rest.startswith("ForAllValues"):
            rest, q = rest.replace("ForAllValues", ""), "all"
        elif rest.startswith("ForAnyValue"):
            rest, q = rest.replace("ForAnyValue", ""), "any"
        else:
            q = "none"
        out[name] = (q, rest, ifx)
    return out


QUAL_CODE = {0: "none", 1: "all", 2: "any"}
FAMILY_OF_BASE = {
    "String": "str", "Arn": "arn", "Numeric": "int", "Date": "date", "Bool": "bool", "Binary": "bytes",
    "IpAddress": "ip", "NotIpAddress": "ip", "Null": "null",
}


def family_of(base):
    for pfx, fam in FAMILY_OF_BASE.items():
        if base.startswith(pfx):
            return fam
    raise KeyError(base)


def check_runner_table(rn):
    """The table compiled into the runner must be the table of the live class (stale gen/Operators.v is an error)."""
    rows = rn.call(1102, None, sample=False)
    live = live_table()
    got = {r[0]: (QUAL_CODE[r[1]], r[3], r[2]) for r in rows}
    if [r[0] for r in rows] != list(live) or got != live:
        raise core_error("operator table in the runner differs from StatementCondition.model_fields")
    return rows


def core_error(msg):
    import core
    return core.ModelError(msg)


def strict_same(a, b):
    """Verdicts are compared with identity of type: True is not 1."""
    return type(a) is type(b) and a == b
