"""C08 -- wildcard matching is IAM glob matching."""
import itertools
import json

import core

ID = "C08"
TABLES = []
BUDGET = {"quick": (4, 60), "thorough": (16, 420)}
EXHAUSTIVE = {"quick": False, "thorough": True}
RULE = ("pairs (pattern, candidate) over printable ASCII with every regex metacharacter over-weighted plus caseless "
        "non-ASCII code points; >=40% built to match under the glob reading by instantiating the wildcards; "
        "non-trivial = the pattern holds a wildcard or a regex metacharacter; distinct by hash of (surface, input). "
        "thorough adds ALL patterns x candidates of length <=3 over the alphabet {a,A,*,?,.,+,(,[,\\} (exhaustive).")
ASSUMPTIONS = [
    "single-line text (no \\n, \\r): the property quantifies over printable single-line text",
    "case-insensitivity of action matching is modelled as ASCII folding; cased non-ASCII letters are outside the generated alphabet "
    "(the shipped catalogue is pure ASCII, re-checked by C09's Catalogue_ok)",
]
MODELLED = ("regex_from_cf_string + re are not translated: the hand-written matcher glob_match is tied to them by running both on the "
            "same pairs (public surfaces: regex_from_cf_string(p).match(s), _expand_action(p), StatementCondition Like/NotLike)")

META = list(".+()[]{}|^$\\-")
LETTERS = list("abcxyzABCXYZ019:/_ ")
OTHER = list("!\"#%&',;<=>@`~") + ["中", "あ", "€", "→", "٣"]
WILD = ["*", "?"]


def gen_pattern(rng, maxlen=12):
    n = rng.choice([0, 1, 1, 2, 2, 3, 3, 4, 5, 6, 8, 10, 12])
    n = min(n, maxlen)
    out = []
    for _ in range(n):
        r = rng.random()
        if r < 0.25:
            out.append(rng.choice(WILD))
        elif r < 0.55:
            out.append(rng.choice(META))
        elif r < 0.9:
            out.append(rng.choice(LETTERS))
        else:
            out.append(rng.choice(OTHER))
    if rng.random() < 0.08:
        # sequences that LOOK like an escape or a variable in some dialect but are plain characters + wildcards here ("${*}" is
        # "$", "{", any run, "}"); digit-only text that a number-first union would rewrite ("012" -> 12 -> "12")
        out.insert(rng.randrange(len(out) + 1), rng.choice(["${*}", "${?}", "${$}", "$*", "${**}", "${aws:username}", "\\*", "[*]",
                                                             "012345678901", "007", "1.0", "+1", "1_000", "0x10", "1e3"]))
    return "".join(out)


def any_char(rng):
    r = rng.random()
    if r < 0.4:
        return rng.choice(META + WILD)
    if r < 0.9:
        return rng.choice(LETTERS)
    return rng.choice(OTHER)


def instantiate(rng, p, flipcase=False):
    out = []
    for c in p:
        if c == "*":
            out += [any_char(rng) for _ in range(rng.choice([0, 0, 1, 2, 3]))]
        elif c == "?":
            out.append(any_char(rng))
        else:
            out.append(c.swapcase() if flipcase and rng.random() < 0.5 and c.isascii() else c)
    return "".join(out)


def mutate(rng, s):
    if not s or rng.random() < 0.3:
        return s + any_char(rng)
    i = rng.randrange(len(s))
    r = rng.random()
    if r < 0.4:
        return s[:i] + s[i + 1:]
    if r < 0.8:
        return s[:i] + any_char(rng) + s[i + 1:]
    return s[:i] + any_char(rng) + s[i:]


def gen_pair(rng, ci):
    p = gen_pattern(rng)
    r = rng.random()
    if r < 0.5:
        s = instantiate(rng, p, flipcase=ci and rng.random() < 0.5)
    elif r < 0.8:
        s = mutate(rng, instantiate(rng, p))
    else:
        s = gen_pattern(rng)
    return p, s


def tags_of(p):
    t = set()
    if "*" in p:
        t.add("star")
    if "?" in p:
        t.add("qm")
    if any(c in META for c in p):
        t.add("regex-meta")
    return t


class MatchSurface(core.Surface):
    name = "regex_from_cf_string(p).match(s)"
    theorem = "C08_ci / C08_correct"

    def impl(self, x):
        from pycfmodel.utils import regex_from_cf_string
        return core.impl_call(lambda: bool(regex_from_cf_string(x["p"]).match(x["s"])))

    def model(self, rn, x):
        return ("OK", rn.call(802, [x["p"], x["s"]]))

    def tags(self, x):
        return tags_of(x["p"]) | {"ci"}

    def nontrivial(self, x, i, m):
        return bool(tags_of(x["p"]))


class LikeSurface(core.Surface):
    name = "StatementCondition Like/NotLike"
    theorem = "C08_instance_cs / C08_correct"
    frozen = frozenset({"op"})

    def impl(self, x):
        from pycfmodel.model.resources.properties.statement_condition import StatementCondition
        # with ONE policy value and ONE context value every spelling of the operator asks the same question: the set qualifiers,
        # the IfExists suffix, the value given alone or as a one-element list (seeded change C08-r4m2 short-circuited
        # ForAnyValue:StringLike when the policy value -- a plain string -- "contained" a star)
        op = x.get("q", "") + x["op"] + ("IfExists" if x.get("ifexists") else "")
        pv = [x["p"]] if x.get("plist") else x["p"]
        cv = [x["s"]] if x.get("clist") else x["s"]
        return core.impl_call(lambda: StatementCondition.model_validate({op: {"k": pv}})({"k": cv}))

    def model(self, rn, x):
        if x.get("clist") and not (x.get("q") or x.get("plist")):
            return ("EXC", "EUndefined", "")     # a list-valued context under a plain operator with a scalar value: a type error by design
        b = rn.call(801, [x["p"], x["s"]])
        return ("OK", (not b) if "Not" in x["op"] else b)

    def tags(self, x):
        return tags_of(x["p"]) | {"like"} | ({"case-differs"} if x["p"].lower() != x["p"] or x["s"].lower() != x["s"] else set())

    def nontrivial(self, x, i, m):
        return bool(tags_of(x["p"]))


class ExpandSurface(core.Surface):
    name = "_expand_action(p)"
    theorem = "C08_ci (membership of each catalogue entry)"

    def impl(self, x):
        _expand_action = core.helper("pycfmodel.action_expander:_expand_action")
        return core.impl_call(lambda: _expand_action(x["p"]))

    def model(self, rn, x):
        return ("OK", rn.call(803, [x["p"]], sample=False))

    def tags(self, x):
        return tags_of(x["p"]) | {"expand"}

    def nontrivial(self, x, i, m):
        return m[0] == "OK" and 0 < len(m[1]) < 18000


class ExpandListSurface(core.Surface):
    """a LIST of patterns matches what its members match, each as a whole-string glob (seeded change C08-r4m1 compiled a list
    into one alternation `^a|b|c$`, which anchors only the first and the last member)"""
    name = "_expand_actions([p1, p2, ...])"
    theorem = "C08_ci (membership of each catalogue entry, per member)"

    def impl(self, x):
        _expand_actions = core.helper("pycfmodel.action_expander:_expand_actions")
        return core.impl_call(lambda: _expand_actions(list(x["ps"])))

    def model(self, rn, x):
        out = set()
        for p in x["ps"]:
            out |= set(rn.call(803, [p], sample=False))
        return ("OK", sorted(out))

    def tags(self, x):
        t = {"expand-list"}
        for p in x["ps"]:
            t |= tags_of(p)
        return t

    def nontrivial(self, x, i, m):
        return m[0] == "OK" and 0 < len(m[1]) < 18000


def prefix_family(rng, cat):
    """actions one of which is a proper prefix of another (s3:GetObject / s3:GetObjectAcl ...), as literals, in both orders"""
    for _ in range(50):
        a = rng.choice(cat)
        longer = [b for b in cat[max(0, cat.index(a) - 0): cat.index(a) + 40] if b != a and b.startswith(a)]
        if longer:
            ps = [a, rng.choice(cat)] if rng.random() < 0.5 else [a, rng.choice(longer)[: len(a) + 2] + "*"]
            if rng.random() < 0.3:
                ps.append(rng.choice(cat))
            if rng.random() < 0.4:
                ps.reverse()
            return ps
    return [rng.choice(cat), rng.choice(cat)]


class SeqSurface(core.Surface):
    """history: the SAME pattern text used case-insensitively (action matching), then case-sensitively (Like operator), then
    case-insensitively again, in one process -- a matcher cache keyed on the text alone would poison one of them"""
    name = "match(p,s) ; StringLike(p)(s) ; match(p,s) on the same text"
    theorem = "C08_ci / C08_instance_cs (each call is a function of its own arguments)"

    def impl(self, x):
        def run():
            from pycfmodel.model.resources.properties.statement_condition import StatementCondition
            from pycfmodel.utils import regex_from_cf_string
            order = x["order"]
            out = []
            for step in order:
                if step == "ci":
                    out.append(bool(regex_from_cf_string(x["p"]).match(x["s"])))
                else:
                    out.append(StatementCondition.model_validate({"StringLike": {"k": x["p"]}})({"k": x["s"]}))
            return out
        return core.impl_call(run)

    def model(self, rn, x):
        ci = rn.call(802, [x["p"], x["s"]])
        cs = rn.call(801, [x["p"], x["s"]])
        return ("OK", [ci if step == "ci" else cs for step in x["order"]])

    frozen = frozenset({"order"})

    def tags(self, x):
        return tags_of(x["p"]) | {"sequence"}

    def nontrivial(self, x, i, m):
        return m[0] == "OK" and len(set(m[1])) > 1


MATCH, LIKE, EXPAND, SEQ = MatchSurface(), LikeSurface(), ExpandSurface(), SeqSurface()
EXPAND_LIST = ExpandListSurface()
SURFACES = {s.name: s for s in (MATCH, LIKE, EXPAND, SEQ, EXPAND_LIST)}
LIKE_OPS = ["StringLike", "ArnLike", "StringNotLike", "ArnNotLike"]
SMALL = ["a", "A", "*", "?", ".", "+", "(", "[", "\\"]


def prepare(rn):
    from pycfmodel.cloudformation_actions import CLOUDFORMATION_ACTIONS
    n = rn.call(0, list(CLOUDFORMATION_ACTIONS), sample=False)
    assert n == len(CLOUDFORMATION_ACTIONS)


def corpus():
    p = core.VERIF / "corpus" / "C08.json"
    if p.exists():
        for c in json.loads(p.read_text()):
            yield SURFACES[c["surface"]], c["input"]


def gen_action_pattern(rng, cat):
    a = rng.choice(cat)
    svc, name = a.split(":", 1)
    r = rng.random()
    if r < 0.3:
        k = rng.randrange(1, len(name) + 1)
        p = svc + ":" + name[:k] + "*"
    elif r < 0.5:
        i = rng.randrange(len(name))
        p = svc + ":" + name[:i] + "?" + name[i + 1:]
    elif r < 0.6:
        p = a.swapcase()
    elif r < 0.7:
        p = svc + ":*" + name[-rng.randrange(1, 5):]
    elif r < 0.8:
        p = svc[: max(1, len(svc) // 2)] + "*:" + name[:3] + "*"
    elif r < 0.9:
        i = rng.randrange(len(a))
        p = a[:i] + rng.choice(META) + a[i + 1:]
    else:
        p = a[: rng.randrange(1, len(a))] + rng.choice(META + ["*", "?"]) + "*"
    return p


_INV = None


def inversion_patterns(cat):
    """patterns whose literal prefix reaches a place where the catalogue's order and the order of its lower-cased entries DISAGREE
    (iam:GetSSHPublicKey < iam:GetServerCertificate, but 'getssh' > 'getserver'): an index built on one order and searched with the
    other goes wrong exactly there"""
    global _INV
    if _INV is None:
        out = []
        for a, b in zip(cat, cat[1:]):
            if a.lower() > b.lower():
                k = 0
                while k < min(len(a), len(b)) and a[k].lower() == b[k].lower():
                    k += 1
                for e in (a, b):
                    out += [e[:k + 1] + "*", e[:-1] + "?", e[:max(k, 1)] + "*", e]
        _INV = out
    return _INV


def cases(rng, tier, shard, nshards):
    from pycfmodel.cloudformation_actions import CLOUDFORMATION_ACTIONS as cat
    if shard == 0:
        yield from corpus()
    n_pairs = {"quick": 5000, "thorough": 40000}[tier]
    n_expand = {"quick": 60, "thorough": 500}[tier]
    for k in range(n_pairs):
        if k % 2 == 0:
            p, s = gen_pair(rng, True)
            yield MATCH, {"p": p, "s": s}
        else:
            p, s = gen_pair(rng, False)
            x = {"op": rng.choice(LIKE_OPS), "p": p, "s": s}
            if k % 4 == 1:
                x.update({"q": rng.choice(["ForAnyValue:", "ForAllValues:", "", "ForAnyValue", "ForAllValues"]), "ifexists": rng.random() < 0.3,
                          "plist": rng.random() < 0.4, "clist": rng.random() < 0.4})
            yield LIKE, x
        if k % (n_pairs // n_expand) == 0:
            yield EXPAND, {"p": gen_action_pattern(rng, cat)}
            yield EXPAND_LIST, {"ps": prefix_family(rng, cat)}
            inv = inversion_patterns(cat)
            if inv:
                yield EXPAND, {"p": rng.choice(inv)}
        if k % 5 == 0:
            # case-differing candidate so that the two readings disagree
            p2 = gen_pattern(rng)
            s2 = instantiate(rng, p2, flipcase=True)
            yield SEQ, {"p": p2, "s": s2, "order": rng.choice([["ci", "cs", "ci"], ["cs", "ci", "cs"], ["ci", "cs"], ["cs", "ci"]])}
    if tier == "thorough":
        words = [""] + ["".join(w) for n in (1, 2, 3) for w in itertools.product(SMALL, repeat=n)]
        for idx, p in enumerate(words):
            if idx % nshards != shard:
                continue
            for s in words:
                yield MATCH, {"p": p, "s": s}
                yield LIKE, {"op": "StringLike", "p": p, "s": s}
