"""C07 -- resolution is local and independent of declaration order (metamorphic on the real code + model)."""
import copy
import json
import random

import core
import resgen
import tplgen
import wire

ID = "C07"
TABLES = ["functions"]
EXTRA_TARGETS = ["theories/Resolver/GenChecks.vo"]
GEN_OBLIGATIONS = ["GenChecks.functions_table_ok"]
BUDGET = {"quick": (4, 75), "thorough": (16, 480)}
RULE = ("for each generated template t: (perm) t with Resources / Parameters / Conditions / Mappings and the keys of EVERY object at every depth "
        "randomly permuted; (restrict) t reduced to one resource; (extend) t plus unused parameters, mappings, conditions and resources. The "
        "implementation runs on the VARIANT, the model on the ORIGINAL; results compared up to key order (restricted to the original resource "
        "ids). Templates are biased to put a Fn::Sub whose local map shadows a parameter or pseudo parameter before another resource that "
        "references that name. non-trivial = the variant differs from the original and the template has >= 2 functions.")
ASSUMPTIONS = ["key-order invariance at every depth of an object (C07_object_keys_perm of DESIGN) is covered by the perm surface only; "
               "the theorems cover sections, resources, parameters, conditions and lookups"]
MODELLED = "see C01/C02; the variants are produced by the harness, the model side is Template.resolve_model on the original template"


def shuffle_keys(v, rng):
    if isinstance(v, dict):
        ks = list(v)
        rng.shuffle(ks)
        return {k: shuffle_keys(v[k], rng) for k in ks}
    if isinstance(v, list):
        return [shuffle_keys(z, rng) for z in v]
    return v


def variant(x, kind):
    rng = random.Random(x["vseed"])
    t = copy.deepcopy(x["template"])
    extra = copy.deepcopy(x["extra"])
    if kind == "perm":
        t = shuffle_keys(t, rng)
        ks = list(extra)
        rng.shuffle(ks)
        extra = {k: extra[k] for k in ks}
    elif kind == "restrict":
        rid = x["rid"]
        t["Resources"] = {rid: t["Resources"][rid]} if rid in t.get("Resources", {}) else {}
    elif kind == "extend":
        t.setdefault("Parameters", {})["ZzUnusedParam"] = {"Type": "String", "Default": "unused"}
        t["Parameters"]["ZzUnusedList"] = {"Type": "CommaDelimitedList"}
        for n, d in list(t["Parameters"].items()):
            if isinstance(d, dict) and str(d.get("Type", "")).startswith("AWS::SSM::Parameter::Value<") and isinstance(d.get("Default"), str):
                # an unused declaration that points at the same SSM name as a used one
                t["Parameters"]["AaUnusedSsm"] = {"Type": d["Type"], "Default": d["Default"]}
                t["Parameters"] = {"AaUnusedSsm": t["Parameters"].pop("AaUnusedSsm"), **t["Parameters"]}
                break
        t.setdefault("Mappings", {})["ZzUnusedMap"] = {"a": {"b": "c"}}
        t.setdefault("Conditions", {})["ZzUnusedCond"] = {"Fn::Equals": ["a", "b"]}
        t.setdefault("Resources", {})["ZzOther"] = {"Type": "Custom::Other", "Properties": {
            "S": {"Fn::Sub": ["${V}${AWS::Region}", {"V": "local", "AWS::Region": "shadow", "A": "shadowA"}]}}}
        # put the extra sections first as well as last
        if rng.random() < 0.5:
            for sec in ("Parameters", "Mappings", "Conditions", "Resources"):
                d = t[sec]
                ks = list(d)
                t[sec] = {k: d[k] for k in ks[-2:] + ks[:-2]}
        extra["ZzUnusedExtra"] = "u"
    return {"template": t, "extra": extra}


class VariantSurface(core.Surface):
    shrinkable = True
    frozen = frozenset({"vseed", "rid"})

    def __init__(self, kind, theorem):
        self.kind = kind
        self.name = f"parse(variant[{kind}](t)).resolve(extra) vs model(t)"
        self.theorem = theorem
        self.e2e = tplgen.E2ESurface(theorem)

    def keep_ids(self, x):
        if self.kind == "restrict":
            return [x["rid"]]
        return list(x["template"].get("Resources", {}))

    def impl(self, x):
        i = tplgen.impl_e2e(variant(x, self.kind))
        if i[0] == "OK":
            ids = self.keep_ids(x)
            out = {"Resources": {k: v for k, v in i[1]["Resources"].items() if k in ids}}
            if self.kind != "restrict":
                out["Conditions"] = {k: v for k, v in i[1]["Conditions"].items() if k in (x["template"].get("Conditions") or {})}
            return ("OK", out)
        return i

    def model(self, rn, x):
        m = self.e2e.model(rn, {"template": x["template"], "extra": x["extra"]})
        if m[0] == "EXC" and m[1] == "EUndefined":
            # the model declines this template (ill-typed somewhere): the property is still about the implementation's OWN
            # invariance, so compare the variant with the implementation on the original template
            m = tplgen.impl_e2e({"template": x["template"], "extra": x["extra"]})
            if m[0] != "OK":
                return ("EXC", "EUndefined", "")
        if m[0] == "OK":
            ids = self.keep_ids(x)
            out = {"Resources": {k: v for k, v in m[1]["Resources"].items() if k in ids}}
            if self.kind != "restrict":
                out["Conditions"] = m[1]["Conditions"]
            return ("OK", out)
        return m

    def agree(self, x, i, m):
        if self.kind == "restrict" and (i[0] == "EXC" or m[0] == "EXC"):
            # an error caused by ANOTHER resource or by an unreferenced condition legitimately disappears on restriction
            return True
        if i[0] == "EXC" and m[0] == "EXC":
            return True      # which of several failing parts is reported first depends on order: only success/failure is compared
        return super().agree(x, i, m)

    def tags(self, x):
        return self.e2e.tags(x) | {"variant:" + self.kind}

    def nontrivial(self, x, i, m):
        return i[0] == "OK" and resgen.count_functions(x["template"]) >= 2


PERM = VariantSurface("perm", "C07_resources_perm / C07_params_perm / C07_conditions_perm / C07_env_lookups_only")
RESTRICT = VariantSurface("restrict", "C07_restrict / C07_resource_local")
EXTEND = VariantSurface("extend", "C07_resource_local / C07_sub_scope")
E2E = tplgen.E2ESurface("C07_resource_local")
SEQ = tplgen.SequenceE2ESurface("C07_env_lookups_only / C07_condition_position_free (each call is a function of its own arguments)")
SURFACES = {s.name: s for s in (PERM, RESTRICT, EXTEND, E2E, SEQ)}


def corpus():
    p = core.VERIF / "corpus" / "C07.json"
    if p.exists():
        for c in json.loads(p.read_text()):
            yield SURFACES[c["surface"]], wire.unjson(c["input"])


def shadowing_template(rng):
    x = tplgen.gen_template(rng)
    t = x["template"]
    name = rng.choice(["AWS::Region", "A", "AWS::AccountId", "Env"])
    first = {"Type": "Custom::Shadow", "Properties": {"S": {"Fn::Sub": ["${V}-${" + name + "}", {"V": "x", name: "HACKED"}]}}}
    later = {"Type": rng.choice(["Custom::Reader", "AWS::S3::Bucket"]), "Properties": {"BucketName" if rng.random() < 0.5 else "N": {"Ref": name}}}
    if later["Type"] == "AWS::S3::Bucket":
        later["Properties"] = {"BucketName": {"Ref": name}}
    rs = {"R0": first}
    rs.update(t["Resources"])
    rs["Rz"] = later
    t["Resources"] = rs
    return x


def cases(rng, tier, shard, nshards):
    resgen.check_alphabet()
    if shard == 0:
        yield from corpus()
    n = {"quick": 500, "thorough": 5000}[tier]
    for k in range(n):
        x = shadowing_template(rng) if k % 3 == 0 else tplgen.gen_template(rng) if k % 3 == 1 else tplgen.gen_condition_template(rng, rng.randint(1, 5))
        if k % 12 == 5:
            x = tplgen.gen_chain_template(rng)      # long chains of conditions, declared in some order: the variants permute them
        x["vseed"] = rng.randrange(1 << 30)
        yield PERM, dict(x)
        yield EXTEND, dict(x)
        rids = list(x["template"].get("Resources", {}))
        if rids:
            y = dict(x)
            y["rid"] = rng.choice(rids)
            yield RESTRICT, y
        if k % 3 == 0:
            yield E2E, {"template": x["template"], "extra": x["extra"]}
        if k % 2 == 1:
            e2 = tplgen.vary_extra(rng, x)
            yield SEQ, {"template": x["template"], "extras": [x["extra"], e2, x["extra"]][: rng.choice([2, 3])]}
        if k % 4 == 0:
            yield SEQ, tplgen.gen_sensitive_sequence(rng)
