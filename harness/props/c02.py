"""C02 -- conditions, conditional resources, Fn::If, AWS::NoValue."""
import itertools
import json

import core
import resgen
import tplgen
import wire

ID = "C02"
TABLES = ["functions"]
EXTRA_TARGETS = ["theories/Resolver/GenChecks.vo"]
GEN_OBLIGATIONS = ["GenChecks.functions_table_ok"]
BUDGET = {"quick": (4, 75), "thorough": (16, 480)}
EXHAUSTIVE = {"quick": False, "thorough": False}
RULE = ("templates whose Conditions section holds 1-8 conditions referring to each other through {Condition: name} inside Fn::And/Or/Not/"
        "Equals (random DAGs, cycles, self loops, undeclared names), operands of every scalar type, resources gated on them, Fn::If and "
        "AWS::NoValue on optional properties and list elements.  For graphs with <= 5 conditions EVERY declaration order is run (all "
        "permutations of the Conditions object; the sub-space of orders is exhaustive for those graphs), sampled orders above. "
        "non-trivial = at least one condition refers to another one and >= 2 functions; distinct by hash of the input.")
ASSUMPTIONS = [
    "pydantic's lenient bool table (true/false/yes/no/on/off/1/0/t/f/y/n, any case) is a leaf: Consts.BOOL_TRUE/BOOL_FALSE, "
    "checked against TypeAdapter(bool) by extra_checks on every run",
    "the implementation caches untainted condition values; the model does not (cond_val is the specification): their agreement on "
    "cyclic graphs is covered by the correspondence (all orders for <= 5 conditions), not by a theorem",
]
MODELLED = ("CFModel.resolve's condition handling (_ConditionResolver) and gating are modelled by Template.cond_val / gate / resolve_resources "
            "and tied by running both on the same templates")

E2E = tplgen.E2ESurface("C02_order_independent / C02_equation / C02_resources_present_iff")
SEQ = tplgen.SequenceE2ESurface("C02_equation (condition values are a function of the template and THIS call's parameters)")
SURFACES = {E2E.name: E2E, SEQ.name: SEQ}


def refers_to_other(conds):
    def has_ref(x):
        if isinstance(x, dict):
            return "Condition" in x or any(has_ref(v) for v in x.values())
        if isinstance(x, list):
            return any(has_ref(v) for v in x)
        return False
    return any(has_ref(b) for b in conds.values())


def _nontrivial(x, i, m):
    return i[0] == "OK" and refers_to_other(x["template"].get("Conditions") or {}) and resgen.count_functions(x["template"]) >= 2


E2E.nontrivial = _nontrivial


def corpus():
    p = core.VERIF / "corpus" / "C02.json"
    if p.exists():
        for c in json.loads(p.read_text()):
            yield SURFACES[c["surface"]], wire.unjson(c["input"])


def permuted(x, order):
    conds = x["template"]["Conditions"]
    keys = list(conds)
    t = dict(x["template"])
    t["Conditions"] = {keys[i]: conds[keys[i]] for i in order}
    return {"template": t, "extra": x["extra"]}


def cases(rng, tier, shard, nshards):
    resgen.check_alphabet()
    if shard == 0:
        yield from corpus()
    n = {"quick": 260, "thorough": 2600}[tier]
    for k in range(n):
        nc = rng.choice([1, 2, 2, 3, 3, 4, 4, 5, 6, 8])
        x = tplgen.gen_condition_template(rng, nc)
        conds = x["template"].get("Conditions") or {}
        if len(conds) <= 5:
            for order in itertools.permutations(range(len(conds))):
                yield E2E, permuted(x, order)
        else:
            for _ in range(12):
                order = list(range(len(conds)))
                rng.shuffle(order)
                yield E2E, permuted(x, order)
        if k % 4 == 0:
            yield E2E, tplgen.gen_template(rng)
        if k % 2 == 0:
            yield SEQ, {"template": x["template"], "extras": [x["extra"], tplgen.vary_extra(rng, x), tplgen.vary_extra(rng, x)]}
            yield SEQ, tplgen.gen_sensitive_sequence(rng)


def extra_checks(tier, seed, stats, broken):
    """lenient-bool leaf table vs pydantic"""
    from pydantic import TypeAdapter
    ta = TypeAdapter(bool)
    out = []
    t = ["true", "yes", "on", "1", "t", "y"]
    f = ["false", "no", "off", "0", "f", "n"]
    for w in t + f + ["", "2", "maybe", "tru", "nope", "yess", "01"]:
        for v in (w, w.upper(), w.capitalize()):
            try:
                got = ta.validate_python(v)
            except Exception:
                got = None
            want = True if v.lower() in t else False if v.lower() in f else None
            if got != want:
                out.append({"sig": "bool-table:" + v, "surface": "TypeAdapter(bool)", "theorem": "Consts.BOOL_TRUE/BOOL_FALSE (leaf table)",
                            "tags": ["bool-table"], "input": v, "impl": got, "model": want})
    return out[:2]
