"""C02 -- conditions, conditional resources, Fn::If, AWS::NoValue."""
import itertools
import json

import core
import resgen
import tplgen
import wire

ID = "C02"
TABLES = ["functions"]
EXTRA_TARGETS = ["theories/Resolver/GenChecks.vo"]
GEN_OBLIGATIONS = ["GenChecks.functions_table_ok"]
BUDGET = {"quick": (4, 75), "thorough": (16, 480)}
EXHAUSTIVE = {"quick": False, "thorough": False}
RULE = ("templates whose Conditions section holds 1-8 conditions referring to each other through {Condition: name} inside Fn::And/Or/Not/"
        "Equals (random DAGs, cycles, self loops, undeclared names), operands of every scalar type, resources gated on them, Fn::If and "
        "AWS::NoValue on optional properties and list elements.  For graphs with <= 5 conditions EVERY declaration order is run (all "
        "permutations of the Conditions object; the sub-space of orders is exhaustive for those graphs), sampled orders above. "
        "non-trivial = at least one condition refers to another one and >= 2 functions; distinct by hash of the input.")
ASSUMPTIONS = [
    "pydantic's lenient bool table (true/false/yes/no/on/off/1/0/t/f/y/n, any case) is a leaf: Consts.BOOL_TRUE/BOOL_FALSE, "
    "checked against TypeAdapter(bool) by extra_checks on every run",
    "the implementation caches untainted condition values: Memo.mget / mall model that algorithm in state-passing style and "
    "C02_memo_resolver_correct proves it equal to cond_val for all declarations; that Memo.mall IS the code's algorithm is tied by the "
    "surface '_ConditionResolver.resolve_all + cache' (values and the cache left behind), skipped when the class is gone",
]
MODELLED = ("CFModel.resolve's condition handling (_ConditionResolver) and gating are modelled by Template.cond_val / gate / resolve_resources "
            "and tied by running both on the same templates")

E2E = tplgen.E2ESurface("C02_order_independent / C02_equation / C02_resources_present_iff")
SEQ = tplgen.SequenceE2ESurface("C02_equation (condition values are a function of the template and THIS call's parameters)")


def memo_inputs(x):
    """(conditions as CFModel.resolve hands them to its condition resolver, merged parameters, mappings) of a template"""
    import copy
    import pycfmodel
    from pycfmodel.model.cf_model import CFModel
    m = pycfmodel.parse(copy.deepcopy(x["template"]))
    extra = dict(copy.deepcopy(x["extra"]) or {})
    params = {}
    for key, parameter in (m.Parameters or {}).items():
        v = parameter.get_ref_value(extra.pop(key, None))
        if v is not None:
            params[key] = v
    merged = {**CFModel.PSEUDO_PARAMETERS, **params, **extra}
    return m.model_dump().get("Conditions") or {}, merged, m.Mappings or {}


def memo_class():
    """the on-demand condition resolver of cf_model.py, when the code has one of the shape the model follows"""
    from pycfmodel.model import cf_model
    cls = getattr(cf_model, "_ConditionResolver", None)
    if isinstance(cls, type) and issubclass(cls, dict) and callable(getattr(cls, "resolve_all", None)):
        return cls
    return None


class MemoSurface(core.Surface):
    """_ConditionResolver(conditions, params, mappings): resolve_all() and the cache it leaves behind, against Memo.mall
    (the state-passing model C02_memo_resolver_correct is proved about).  Internal class: when the code no longer has it
    the surface is skipped (the values stay covered by parse(t).resolve(extra))."""
    name = "_ConditionResolver.resolve_all + cache"
    theorem = "C02_memo_resolver_correct / C02_cache_sound (the model of the memoising resolver is the code's)"

    def impl(self, x):
        cls = memo_class()
        if cls is None:
            return ("EXC", "EUnavailable", "")

        def run():
            conds, params, maps = memo_inputs(x)
            try:
                r = cls(conds, params, maps)
            except TypeError:
                return None
            vals = r.resolve_all()
            return {"values": {k: v for k, v in vals.items()}, "cache": [[k, v] for k, v in r.items()]}
        out = core.impl_call(run)
        if out == ("OK", None):
            return ("EXC", "EUnavailable", "")
        return out

    def model(self, rn, x):
        try:
            conds, params, maps = memo_inputs(x)
        except Exception:
            return ("EXC", "EUndefined", "")
        r = core.model_res(rn.call(109, [resgen.to_wire(params), resgen.to_wire(maps), resgen.to_wire(conds)]))
        if r[0] != "OK":
            return r
        vals, cache = r[1]
        return ("OK", {"values": vals, "cache": cache})

    def agree(self, x, i, m):
        if i[0] == "EXC" and i[1] == "EUnavailable":
            return True
        if i[0] == "EXC" and m[0] == "EXC":
            return True
        if i[0] == "OK" and m[0] == "OK":
            # the VALUES are the property; which of them the resolver keeps in its cache is internal state: a different (still
            # correct) caching policy is a harmless rewrite, so a cache that differs from Memo.mall's is a remark in the evidence,
            # not a violation (audit finding D2: a resolver caching only top-level values raised 6 false VIOLATION lines)
            same_values = core.strict_key(i[1]["values"]) == core.strict_key(m[1]["values"])
            if same_values and core.strict_key(i[1]["cache"]) != core.strict_key(m[1]["cache"]):
                core.note(ID, "the cache _ConditionResolver leaves behind differs from the one of Memo.mall although every condition value "
                              "agrees: the code's caching policy is no longer the modelled one (C02_memo_resolver_correct then speaks of "
                              "the model only; the values remain compared)")
            return same_values
        return super().agree(x, i, m)

    def tags(self, x):
        return E2E.tags(x) | {"memo"}

    def nontrivial(self, x, i, m):
        return i[0] == "OK" and refers_to_other(x["template"].get("Conditions") or {}) and len(i[1]["cache"]) < len(i[1]["values"])


MEMO = MemoSurface()
SURFACES = {E2E.name: E2E, SEQ.name: SEQ, MEMO.name: MEMO}


def refers_to_other(conds):
    def has_ref(x):
        if isinstance(x, dict):
            return "Condition" in x or any(has_ref(v) for v in x.values())
        if isinstance(x, list):
            return any(has_ref(v) for v in x)
        return False
    return any(has_ref(b) for b in conds.values())


def _nontrivial(x, i, m):
    return i[0] == "OK" and refers_to_other(x["template"].get("Conditions") or {}) and resgen.count_functions(x["template"]) >= 2


E2E.nontrivial = _nontrivial


def corpus():
    p = core.VERIF / "corpus" / "C02.json"
    if p.exists():
        for c in json.loads(p.read_text()):
            yield SURFACES[c["surface"]], wire.unjson(c["input"])


def permuted(x, order):
    conds = x["template"]["Conditions"]
    keys = list(conds)
    t = dict(x["template"])
    t["Conditions"] = {keys[i]: conds[keys[i]] for i in order}
    return {"template": t, "extra": x["extra"]}


def cases(rng, tier, shard, nshards):
    resgen.check_alphabet()
    if shard == 0:
        yield from corpus()
    n = {"quick": 260, "thorough": 2600}[tier]
    for k in range(n):
        nc = rng.choice([1, 2, 2, 3, 3, 4, 4, 5, 6, 8])
        x = tplgen.gen_condition_template(rng, nc)
        conds = x["template"].get("Conditions") or {}
        if len(conds) <= 5:
            for j, order in enumerate(itertools.permutations(range(len(conds)))):
                yield E2E, permuted(x, order)
                if j < 6:
                    yield MEMO, permuted(x, order)
        else:
            for _ in range(12):
                order = list(range(len(conds)))
                rng.shuffle(order)
                yield E2E, permuted(x, order)
                yield MEMO, permuted(x, order)
        if k % 4 == 0:
            yield E2E, tplgen.gen_template(rng)
        if k % 10 == 0:
            ch = tplgen.gen_chain_template(rng)         # long chains of conditions (depth guards, deep recursion, declaration order)
            yield E2E, ch
            yield MEMO, ch
        if k % 2 == 0:
            yield SEQ, {"template": x["template"], "extras": [x["extra"], tplgen.vary_extra(rng, x), tplgen.vary_extra(rng, x)]}
            yield SEQ, tplgen.gen_sensitive_sequence(rng)


def extra_checks(tier, seed, stats, broken):
    """lenient-bool leaf table vs pydantic"""
    from pydantic import TypeAdapter
    ta = TypeAdapter(bool)
    out = []
    t = ["true", "yes", "on", "1", "t", "y"]
    f = ["false", "no", "off", "0", "f", "n"]
    for w in t + f + ["", "2", "maybe", "tru", "nope", "yess", "01"]:
        for v in (w, w.upper(), w.capitalize()):
            try:
                got = ta.validate_python(v)
            except Exception:
                got = None
            want = True if v.lower() in t else False if v.lower() in f else None
            if got != want:
                out.append({"sig": "bool-table:" + v, "surface": "TypeAdapter(bool)", "theorem": "Consts.BOOL_TRUE/BOOL_FALSE (leaf table)",
                            "tags": ["bool-table"], "input": v, "impl": got, "model": want})
    return out[:2]
