"""C05 -- the pipeline never fails on a valid, fully resolvable template; bounded resources."""
import copy
import json
import random
import statistics
import time

import core
import resgen
import robgen
import sandbox
import tplgen
import wire

ID = "C05"
TABLES = ["functions"]
EXTRA_TARGETS = ["theories/Resolver/GenChecks.vo", "theories/Findings/F11F13.vo"]
GEN_OBLIGATIONS = ["GenChecks.functions_table_ok (the function names the typing rules dispatch on)"]
BUDGET = {"quick": (6, 80), "thorough": (16, 720)}
WALL_S, CPU_S, AS_MB = 40.0, 20, 2048     # CPU seconds catch a runaway computation; the (larger) wall limit catches a blocked one
SWEEP_V4 = [28, 20, 12, 4]
SWEEP_V6 = [124, 96, 64, 32, 8]
RULE = ("well-typed whole templates from the cross product of constructs: template k holds modelled type k mod 18 (all 18 classes, valid "
        "instances built by hand), an IAM policy using condition operator k mod 159 (every operator field of StatementCondition incl. "
        "BinaryEquals with base64 text, dates, IP ranges), 1-2 unmodelled resources (k mod 11: Lambda permission / WAF / prefix lists with "
        "string-valued non-IAM `Action`, policies as JSON text, CIDR lists), parameters of every kind (list-typed, value-less, NoEcho, "
        "SSM, supplied by the caller), Fn::If / AWS::NoValue on optional properties, CIDRs of prefix /32../4 and /128../8 in typed and "
        "generic positions; list-typed parameters also get numeric Defaults / supplied values.  Every template runs parse -> resolve(extra) -> "
        "expand_actions() -> all policy queries in a sandboxed worker, then asks the SAME objects again (expand_actions, resolve, queries a second "
        "time: the second round must not raise nor take > 20x the first + 2 s) "
        f"(wall {WALL_S:.0f} s, CPU {CPU_S} s, address space {AS_MB} MB); required: outcome ok, the runner says valid_template = true "
        "(op 501, the hypothesis of C05_no_error) and resolve_model = Ok (op 102).  Second stream: the resolver family's template "
        "generator (not necessarily well typed; compared only when valid_template holds).  Third: expand_actions() on plain trees "
        "against the modelled walk (exact outcome).  Magnitude sweep (extra_checks): 6 templates x prefix 28/20/12/4 (v4) and "
        "124..8 (v6), fresh worker each, 3 repeats: the widest must not take > 5x the narrowest + 50 ms nor > 64 MB more peak RSS. "
        "non-trivial = a valid template with >= 2 function objects whose pipeline produced >= 1 policy document or condition; "
        "distinct by hash of the input.")
ASSUMPTIONS = [
    "real time, memory, the interpreter and pydantic-core are RUNTIME: measured in the sandbox (partial), not proved; the proved cost bound "
    "(C05_cost_linear) is about the modelled walk of expand_actions() only",
    "per-case allowance = 20 CPU s / 40 s wall + 30 CPU s / 60 s wall per full catalogue (18 439 actions) that the template's Action / "
    "NotAction pattern texts expand to (budget(): the library sweeps the catalogue once per pattern and re-validates every expanded action, "
    "three times in this pipeline -- a cost that is a function of the input, which is what the property allows; first sized at a flat "
    "20 s, which a corpus template with two catalogue-wide patterns in generic positions exceeded on a loaded machine: a false alarm of "
    "the check, corrected here)",
    "queries run on the resolved and on the expanded model; on the EXPANDED model get_allowed_actions / get_iam_actions are called only for "
    "documents with <= 40 literal actions (each literal action costs a sweep of the 18 439-entry catalogue: a document expanded from '*' "
    "costs 18 439^2 matches -- a constant of the library, independent of the template, reported as an observation)",
    "a re-validation step (CFModel(**...)) follows resolve and expand_actions in the code; its acceptance of resolved text in typed fields "
    "is pydantic's (leaf oracle) -- the generator keeps typed fields' resolved values of the field's type (in-range Fn::Select, text in text fields)",
    "Fn::Select results are not accepted by valid_template where text is REQUIRED (Fn::Join members, Fn::Sub variables): its out-of-range "
    "value is an empty list; such templates are outside the proved domain and only counted",
    "dict-valued `Action` in non-IAM properties (defect F08, repaired by the C10 builder) joins the main stream only when the live "
    "expand_actions() already walks into it (asked at start: guard = %s)",
]
MODELLED = ("CFModel.resolve / resolver.resolve (Resolver/*.v) and action_expander.expand_actions (Robust/Validators.v expand_tree) are modelled by "
            "hand and tied by running both; the typing rules (Robust/WellFormed.v) are evaluated by the runner on every generated template; "
            "pydantic validation and the query methods are executed, not modelled")
TRUSTED_EXTRA = ["harness/sandbox.py (fork + setrlimit + process group + wall-clock kill); ru_maxrss as the memory observable"]

_SB = {}
_GUARD = None


def guard_present():
    """does the live expand_actions() walk into a non-textual Action instead of raising (C10 repair)?"""
    global _GUARD
    if _GUARD is None:
        from pycfmodel.action_expander import expand_actions
        try:
            expand_actions({"Action": {"Block": {}}})
            _GUARD = True
        except ValueError:
            _GUARD = False
    return _GUARD


def _worker(msg):
    kind, x = msg
    if kind == "pipeline":
        return robgen.pipeline(x)
    if kind == "args":
        import pycfmodel
        m = pycfmodel.parse(copy.deepcopy(x["template"]))
        return tplgen.model_args(m, x["extra"], x["template"])
    raise ValueError(kind)


def _init():
    import logging
    import warnings
    logging.disable(logging.CRITICAL)
    warnings.simplefilter("ignore")


def sb(persistent=True):
    key = "p" if persistent else "f"
    if key not in _SB:
        _SB[key] = sandbox.Sandbox(_worker, wall_s=WALL_S, cpu_s=CPU_S, as_mb=AS_MB, init=_init, persistent=persistent)
    return _SB[key]


def close_sandboxes():
    for s in _SB.values():
        s.close()
    _SB.clear()


def to_impl(o):
    if o["outcome"] == "ok":
        return ("OK", {"summary": o["value"], "wall_ms": round(o["wall_s"] * 1000, 1), "rss_growth_kb": o["rss_growth_kb"], "rss_kb": o["rss_kb"]})
    if o["outcome"] == "exc":
        return ("EXC", core.EXC_KIND.get(o["cls"], "EOther:" + str(o["cls"])), o["cls"], o.get("detail"))
    if o["outcome"] == "timeout":
        return ("EXC", "TIMEOUT", "Timeout", o.get("detail"))
    return ("EXC", "KILLED:" + str(o["cls"]), "Killed", o.get("detail"))


_CAT_LOWER = None


def catalogue_share(template):
    """sum, over every Action / NotAction pattern text anywhere in the template, of the share of the action catalogue it expands
    to (1.0 = all 18 439 entries; a NotAction text is counted with its complement).  Computed with fnmatch on the lower-cased
    catalogue, independently of the library's own matcher: it only scales a time budget."""
    import fnmatch
    global _CAT_LOWER
    if _CAT_LOWER is None:
        from pycfmodel.cloudformation_actions import CLOUDFORMATION_ACTIONS
        _CAT_LOWER = [a.lower() for a in CLOUDFORMATION_ACTIONS]
    total = 0.0

    def share(p):
        if not any(c in p for c in "*?"):
            return 1.0 / len(_CAT_LOWER)
        pat = "".join("[" + c + "]" if c in "[]" else c for c in p.lower())
        return sum(1 for a in _CAT_LOWER if fnmatch.fnmatchcase(a, pat)) / len(_CAT_LOWER)

    def walk(v):
        nonlocal total
        if isinstance(v, dict):
            for k, w in v.items():
                if k in ("Action", "NotAction"):
                    texts = [w] if isinstance(w, str) else [t for t in w if isinstance(t, str)] if isinstance(w, list) else []
                    sh = min(1.0, sum(share(t) for t in texts))
                    if texts:
                        total += (1.0 - sh) if k == "NotAction" else sh
                walk(w)
        elif isinstance(v, list):
            for w in v:
                walk(w)
    walk(template)
    return total


def budget(template):
    """(CPU seconds, wall seconds) allowed for one pipeline run.  The library's cost per wildcard pattern is a sweep of the whole
    catalogue, and every expanded action is then re-validated (in a generic resource: cast string by string, ~0.1 ms each), three
    times in this pipeline: a constant of the library per pattern, so the allowance grows with the catalogue share the template's
    patterns expand to -- a function of the input, as the property words it, not of any numeric magnitude in it.  Measured: a
    template whose patterns expand to two full catalogues needs ~25 CPU s; the unchanged allowance for a template without wide
    patterns is 20 s."""
    sh = catalogue_share(template)
    return int(CPU_S + 30 * sh), WALL_S + 60 * sh


class PipelineSurface(core.Surface):
    name = "sandbox: parse(t).resolve(extra).expand_actions() + policy queries"
    theorem = "C05_no_error / C05_expand_no_error (valid_template t = true -> resolve_model t = Ok; outcome of the sandboxed pipeline = ok)"
    frozen = frozenset({"stream", "case"})

    def __init__(self):
        self.last = None
        self.fail_kind = {}

    @property
    def shrinkable(self):
        # a candidate that hangs costs the wall limit: do not shrink cases whose failure is a hang or a kill
        return not (self.last and self.last[0] == "EXC" and (self.last[1] == "TIMEOUT" or str(self.last[1]).startswith("KILLED")))

    def impl(self, x):
        cpu, wall = budget(x["template"])
        self.last = to_impl(sb().run(("pipeline", x), cpu_s=cpu, wall_s=wall))
        self.last_id = id(x)
        return self.last

    def model(self, rn, x):
        if not self.shrinkable and getattr(self, "last_id", None) == id(x):
            return ("EXC", "ENoModelArgs", "not attempted: the pipeline hung or was killed on this input")
        a = sb().run(("args", x))
        if a["outcome"] != "ok":
            # no dumped model to hand to the runner: the implementation side has already failed (never EUndefined: it must be compared)
            return ("EXC", "ENoModelArgs", str(a["cls"] or a["outcome"]))
        args = a["value"]
        valid = rn.call(501, args)
        if not valid:
            if x.get("stream") == "main":
                return ("EXC", "EOutsideDomain", json.dumps(wire.jsonable(rn.call(503, args, sample=False)))[:600])
            return ("EXC", "EUndefined", "")
        r = core.model_res(rn.call(102, args))
        if r[0] != "OK":
            return r
        if not guard_present() and not rn.call(504, [r[1]["Resources"]]):
            return ("EXC", "EValue", "expand_tree")
        return ("OK", {"valid": True})

    def agree(self, x, i, m):
        if i[0] == "OK" and m[0] == "OK":
            # the queries asked of the resolved model a second time, after expand_actions() and another resolve() ran on the same
            # objects, must answer as they did the first time (computed by robgen.pipeline; the audit found it was never read)
            return bool(i[1]["summary"].get("again_same", True))
        # while a failing case is being shrunk, only candidates that fail in the SAME way count as still failing
        # (otherwise any template the shrinker damages into an invalid one would qualify)
        if x.get("stream") != "main" and i[0] == "EXC" and i[1] == "EValidation":
            # the resolver family's generator does not keep typed fields well typed after resolution (an out-of-range Fn::Select
            # in a text field ...): pydantic's re-validation rejects such a template -- outside this property's domain
            return True
        kind = (i[1] if i[0] == "EXC" else "ok", m[1] if m[0] == "EXC" else "ok")
        first = self.fail_kind.setdefault(x.get("case"), kind)
        return kind != first

    def tags(self, x):
        return robgen.template_tags(x) | {"stream:" + str(x.get("stream"))}

    def nontrivial(self, x, i, m):
        if i[0] != "OK" or m[0] != "OK":
            return False
        s = i[1]["summary"]["resolved"]
        return resgen.count_functions(x["template"]) >= 2 and (s["documents"] + s["conditions"]) >= 1

    def describe(self, x):
        return wire.jsonable(x)


class ExpandSurface(core.Surface):
    name = "action_expander.expand_actions(tree)"
    theorem = "C05_expand_fails_iff / C05_expand_only_value_error"

    def impl(self, x):
        from pycfmodel.action_expander import expand_actions
        r = core.impl_call(lambda: expand_actions(copy.deepcopy(x["obj"])) and None)
        return ("OK", None) if r[0] == "OK" else r

    def model(self, rn, x):
        return core.model_res(rn.call(505, [guard_present(), resgen.to_wire(x["obj"])]))

    def tags(self, x):
        t = set()

        def walk(v):
            if isinstance(v, dict):
                for k, z in v.items():
                    if k in ("Action", "NotAction") and z is not None:
                        t.add("action:" + type(z).__name__)
                        if isinstance(z, list) and not all(isinstance(e, str) for e in z):
                            t.add("action:mixed-list")
                    walk(z)
            elif isinstance(v, list):
                for z in v:
                    walk(z)
        walk(x["obj"])
        return t

    def nontrivial(self, x, i, m):
        return bool(self.tags(x))


PIPE, EXPAND = PipelineSurface(), ExpandSurface()
SURFACES = {PIPE.name: PIPE, EXPAND.name: EXPAND}


def gen_expand_case(rng):
    def val(d):
        k = rng.random()
        if k < 0.3:
            return rng.choice(["s3:Get*", "iam:PassRole", "nosuch:x", "*:*zzz", "BLOCK", ""])
        if k < 0.5:
            return [rng.choice(["s3:GetObject", "ec2:Describe?ags", "x"]) for _ in range(rng.randint(0, 3))]
        if k < 0.6:
            return rng.choice([None, 5, True, 1.5, {"Block": {}}, {"Type": "ALLOW"}, ["s3:GetObject", 5], [["x"]], [None], {}])
        if d <= 0:
            return "leaf"
        if k < 0.8:
            return {key: val(d - 1) for key in rng.sample(["Action", "NotAction", "Rules", "Statement", "Other", "Effect"], rng.randint(0, 3))}
        return [val(d - 1) for _ in range(rng.randint(0, 3))]
    return {"obj": {key: val(2) for key in rng.sample(["Action", "NotAction", "Properties", "Rules", "X"], rng.randint(1, 3))}}


def corpus():
    p = core.VERIF / "corpus" / "C05.json"
    if p.exists():
        for n, c in enumerate(json.loads(p.read_text())):
            x = wire.unjson(c["input"])
            if c["surface"] == PIPE.name:
                x["case"] = f"c{n}"
            yield SURFACES[c["surface"]], x


def cases(rng, tier, shard, nshards):
    resgen.check_alphabet()
    ops, types = robgen.operator_table(), robgen.modelled_types()
    try:
        if shard == 0:
            yield from corpus()
        n = {"quick": 170, "thorough": 2000}[tier]
        for k in range(n):
            idx = k * nshards + shard         # the shards together walk every (type, operator) index
            x = robgen.gen_template(rng, idx, ops=ops, types=types, object_action=guard_present() and rng.random() < 0.3)
            yield PIPE, {"template": x["template"], "extra": x["extra"], "stream": "main", "case": f"m{idx}"}
            if k % 4 == 0:
                y = tplgen.gen_template(rng)
                yield PIPE, {"template": y["template"], "extra": y["extra"], "stream": "resolver-family", "case": f"r{idx}"}
            if k % 2 == 0:
                yield EXPAND, gen_expand_case(rng)
    finally:
        close_sandboxes()


# ---------------------------------------------------------------------------------------------------
# magnitude sweep

def sweep_templates():
    """the same template at several CIDR widths: (name, family, builder(prefix))"""
    def sg(cidrs, v6=False):
        key = "CidrIpv6" if v6 else "CidrIp"
        return {"Resources": {"SG": {"Type": "AWS::EC2::SecurityGroup", "Properties": {"GroupDescription": "d", "SecurityGroupIngress": [
            {"IpProtocol": "tcp", "FromPort": 22, "ToPort": 22, key: c} for c in cidrs]}}}}

    def generic(cidrs, v6=False):
        return {"Resources": {"G": {"Type": "AWS::EC2::PrefixList", "Properties": {"Cidrs": list(cidrs), "Entries": [{"Cidr": c} for c in cidrs],
                                                                                     "Nested": {"Deep": [{"Ranges": list(cidrs)}]}}}}}

    def policy(cidrs, v6=False):
        return {"Resources": {"P": {"Type": "AWS::IAM::Policy", "Properties": {"PolicyName": "p", "PolicyDocument": {"Version": "2012-10-17", "Statement": [
            {"Effect": "Allow", "Action": "s3:GetObject", "Resource": "*", "Principal": "*",
             "Condition": {"IpAddress": {"aws:SourceIp": list(cidrs)}, "NotIpAddressIfExists": {"aws:k": cidrs[0]}}}]}}}}}

    def generic_policy(cidrs, v6=False):
        return {"Resources": {"E": {"Type": "AWS::ECR::Repository", "Properties": {"RepositoryPolicyText": {"Version": "2012-10-17", "Statement": [
            {"Effect": "Allow", "Action": "ecr:GetDownloadUrlForLayer", "Principal": "*", "Condition": {"ForAnyValue:IpAddress": {"aws:SourceIp": list(cidrs)}}}]},
            "Allowed": list(cidrs)}}}}

    def via_params(cidrs, v6=False):
        return {"Parameters": {"Cidrs": {"Type": "CommaDelimitedList", "Default": ",".join(cidrs)}, "One": {"Type": "String", "Default": cidrs[0]}},
                "Mappings": {"M": {"k": {"cidrs": list(cidrs), "one": cidrs[0]}}},
                "Resources": {"G": {"Type": "Custom::Net", "Properties": {"A": {"Ref": "Cidrs"}, "B": {"Fn::FindInMap": ["M", "k", "cidrs"]},
                                                                           "C": [{"Ref": "One"}, {"Fn::FindInMap": ["M", "k", "one"]}]}},
                              "SG": {"Type": "AWS::EC2::SecurityGroupIngress" , "Properties": {"IpProtocol": "tcp", "GroupId": "g",
                                                                                               ("CidrIpv6" if v6 else "CidrIp"): {"Ref": "One"}}}}}

    def invalid_modelled(cidrs, v6=False):
        # accepted only as a generic property bag: an S3 bucket (modelled, valid) carrying CIDR lists in its Generic-typed blocks
        return {"Resources": {"B": {"Type": "AWS::S3::Bucket", "Properties": {"LifecycleConfiguration": {"Rules": [{"Ranges": list(cidrs)}]},
                                                                               "AnalyticsConfigurations": [{"Cidrs": list(cidrs)}]}}}}
    return [("security-group", sg), ("generic-lists", generic), ("iam-ipaddress", policy), ("generic-policy", generic_policy),
            ("params-mappings", via_params), ("modelled-generic-blocks", invalid_modelled)]


def nets(prefix, v6, n=3):
    if v6:
        return [str(__import__("ipaddress").IPv6Network((((0x20010db8 << 96) + (i << 120)) >> (128 - prefix) << (128 - prefix), prefix))) for i in range(1, n + 1)]
    return [str(__import__("ipaddress").IPv4Network((((10 + 16 * i) << 24) >> (32 - prefix) << (32 - prefix), prefix))) for i in range(1, n + 1)]


def extra_checks(tier, seed, stats, broken):
    """magnitude sweep + coverage of the cross product"""
    out = []
    report = {}
    repeats = 3 if tier == "quick" else 5
    pool = sandbox.Pool(_worker, n=4, wall_s=WALL_S, cpu_s=CPU_S, as_mb=AS_MB, init=_init, persistent=False)
    seqs = [(name, build, v6, prefixes) for name, build in sweep_templates() for v6, prefixes in ((False, SWEEP_V4), (True, SWEEP_V6))]
    index, res = [], []
    try:
        alive = list(seqs)
        for stage in range(max(len(SWEEP_V4), len(SWEEP_V6))):
            # narrow -> wide, one width per stage; a sequence that fails (hang, kill, exception) is not widened further,
            # and the repeats (for the minimum of the timings) are only run where the first attempt answered
            todo = [(name, build, v6, prefixes[stage]) for name, build, v6, prefixes in alive if stage < len(prefixes)]
            first = pool.map([("pipeline", {"template": build(nets(p, v6), v6), "extra": {}}) for name, build, v6, p in todo])
            okay = []
            for (name, build, v6, p), o in zip(todo, first):
                index.append((name, v6, p))
                res.append(o)
                if o["outcome"] == "ok":
                    okay.append((name, build, v6, p))
                else:
                    alive = [q for q in alive if not (q[0] == name and q[2] == v6)]
            more = [(name, build, v6, p) for name, build, v6, p in okay for _ in range(repeats - 1)]
            for (name, build, v6, p), o in zip(more, pool.map([("pipeline", {"template": build(nets(p, v6), v6), "extra": {}}) for name, build, v6, p in more])):
                index.append((name, v6, p))
                res.append(o)
    finally:
        pool.close()
    by = {}
    for key, o in zip(index, res):
        by.setdefault(key, []).append(o)
    for name, build in sweep_templates():
        for v6, prefixes in ((False, SWEEP_V4), (True, SWEEP_V6)):
            fam = "v6" if v6 else "v4"
            rows = {}
            for p in prefixes:
                os_ = by.get((name, v6, p))
                if os_ is None:
                    rows[p] = {"outcome": "not-run (a narrower width already failed)"}
                    continue
                badc = [sandbox.classify(o) for o in os_ if o["outcome"] != "ok"]
                if badc:
                    rows[p] = {"outcome": badc[0]}
                else:
                    rows[p] = {"outcome": "ok", "wall_ms": round(min(o["wall_s"] for o in os_) * 1000, 2), "rss_kb": min(o["rss_kb"] for o in os_)}
            entry = {"prefixes": prefixes, "outcome": [rows[p]["outcome"] for p in prefixes],
                     "wall_ms": [rows[p].get("wall_ms") for p in prefixes], "peak_rss_kb": [rows[p].get("rss_kb") for p in prefixes]}
            report[f"{name}/{fam}"] = entry
            narrow = rows[prefixes[0]]
            problem = None
            for p in prefixes:
                if rows[p]["outcome"] != "ok":
                    problem = f"prefix /{p}: {rows[p]['outcome']}"
                    break
            if problem is None:
                worst_t = max(rows[p]["wall_ms"] for p in prefixes)
                worst_m = max(rows[p]["rss_kb"] for p in prefixes)
                if worst_t > 5 * narrow["wall_ms"] + 50:
                    problem = f"wall time grows with the width: {narrow['wall_ms']} ms at /{prefixes[0]} -> {worst_t} ms"
                elif worst_m - narrow["rss_kb"] > 64 * 1024:
                    problem = f"peak RSS grows with the width: {narrow['rss_kb']} kB at /{prefixes[0]} -> {worst_m} kB"
                entry["ratio_wall_worst_over_narrowest"] = round(worst_t / max(narrow["wall_ms"], 0.01), 2)
                entry["delta_peak_rss_kb"] = worst_m - narrow["rss_kb"]
            if problem and problem.startswith(("wall time", "peak RSS")):
                # timings on a shared machine are noisy: measure the two ends again (5 fresh workers each) before reporting
                again = sandbox.Pool(_worker, n=2, wall_s=WALL_S, cpu_s=CPU_S, as_mb=AS_MB, init=_init, persistent=False)
                try:
                    ends = [prefixes[0]] * 5 + [prefixes[-1]] * 5
                    rr = again.map([("pipeline", {"template": build(nets(p, v6), v6), "extra": {}}) for p in ends])
                finally:
                    again.close()
                if all(o["outcome"] == "ok" for o in rr):
                    t_n, t_w = min(o["wall_s"] for o in rr[:5]) * 1000, min(o["wall_s"] for o in rr[5:]) * 1000
                    m_n, m_w = min(o["rss_kb"] for o in rr[:5]), min(o["rss_kb"] for o in rr[5:])
                    entry["remeasured"] = {"wall_ms": [round(t_n, 2), round(t_w, 2)], "peak_rss_kb": [m_n, m_w]}
                    if t_w <= 5 * t_n + 50 and m_w - m_n <= 64 * 1024:
                        problem = None
            if problem:
                entry["problem"] = problem
                widest = prefixes[-1]
                for p in prefixes:
                    if rows[p]["outcome"] != "ok":
                        widest = p
                        break
                x = {"template": build(nets(widest, v6), v6), "extra": {}, "stream": "sweep", "case": f"sweep-{name}-{fam}"}
                out.append({"sig": core.stable_hash(["sweep", name, fam]), "surface": PIPE.name, "theorem": "C05 magnitude sweep (measured, partial): " + problem,
                            "tags": ["sweep", name, fam], "input": wire.jsonable(x), "impl": ["EXC", "MAGNITUDE", problem], "model": ["OK", "cost independent of the width (C05_cost_linear, typed atom = 1 step)"]})
    stats.dist["sweep"] = report
    # coverage of the cross product actually generated in this run
    types = {"type:" + t for t in robgen.modelled_types()}
    seen_types = {k[4:] for k in stats.dist if k.startswith("tag:type:")}
    fams = {"op:" + f for f in set(robgen.FAMILY.values())}
    seen_fams = {k[4:] for k in stats.dist if k.startswith("tag:op:")}
    stats.dist["coverage"] = {"modelled_types_seen": len(types & seen_types), "of": len(types), "operator_families_seen": len(fams & seen_fams),
                              "families": len(fams), "expand_guard_present": guard_present()}
    if stats.evaluations and not stats.violations and not out and (types - seen_types or fams - seen_fams):
        out.append({"sig": "coverage", "surface": "harness", "theorem": "generator coverage", "tags": ["coverage"], "crash": True,
                    "input": f"not generated in this run: {sorted(types - seen_types)} {sorted(fams - seen_fams)}", "impl": None, "model": None})
    return out


ASSUMPTIONS[-1] = ASSUMPTIONS[-1] % "asked at run time"
