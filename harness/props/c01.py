"""C01 -- intrinsic value functions resolve to their CloudFormation-defined value."""
import json
import random

import core
import resgen
import tplgen
import wire

ID = "C01"
TABLES = ["functions"]
EXTRA_TARGETS = ["theories/Resolver/GenChecks.vo"]
GEN_OBLIGATIONS = ["GenChecks.functions_table_ok", "GenChecks.sub_regex_ok"]
BUDGET = {"quick": (4, 75), "thorough": (16, 480)}
RULE = ("expressions from a typed grammar (string-, list- and condition-valued, depth <= 5, all 16 function keys, composition "
        "biased: Fn::Sub with local maps next to Refs of the same name, parameter values that contain ${..}, ${!x}, SSM strings, "
        "Select indices -2..len+2 as int and text) in a random environment (params, 3-level mappings, conditions); "
        "end-to-end templates place them in typed and generic resources. non-trivial = at least 2 function objects and result != input; "
        "distinct by hash of (surface, input).")
ASSUMPTIONS = [
    "non-ASCII code points are limited to a fixed table whose \\w-ness is listed in Resolver/Text.v (checked against `re` at start)",
    "inputs on which the model answers EUndefined (ill-typed arguments: joining objects, non-text indices, ...) are counted, not compared",
    "mapping leaves in the main stream are strings or lists of strings (CloudFormation's rule); other leaves are the known finding F14b stream",
]
MODELLED = ("pycfmodel/resolver.py and CFModel.resolve are modelled by hand (Resolver/Resolve.v, Template.v) and tied by running both; "
            "only the function-name table and the placeholder regex text are translated from the source")


class ResolveSurface(core.Surface):
    name = "resolver.resolve(expr, params, mappings, conditions)"
    theorem = "C01_sound / C01_sub_once / C01_placeholders"
    frozen = frozenset()

    def impl(self, x):
        return resgen.impl_resolve(x["expr"], x["params"], x["mappings"], x["conds"])

    def model(self, rn, x):
        return core.model_res(rn.call(101, [resgen.to_wire(x["expr"]), resgen.to_wire(x["params"]), resgen.to_wire(x["mappings"]), x["conds"]]))

    def agree(self, x, i, m):
        if i[0] == "EXC" and m[0] == "EXC":
            return True    # ill-typed input: WHICH exception comes first is an evaluation-order artefact; only ok-vs-error is compared
        return super().agree(x, i, m)

    def tags(self, x):
        t = {f.replace("Fn::", "").lower() for f in resgen.function_names(x["expr"])}
        if _has_nonstring_leaf(x["mappings"]):
            t.add("mapping-nonstring")
        return t

    def nontrivial(self, x, i, m):
        return resgen.count_functions(x["expr"]) >= 2 and i[0] == "OK" and core.canon(i[1]) != core.canon(x["expr"])


def _has_nonstring_leaf(mappings):
    for a in mappings.values():
        for b in a.values():
            for leaf in b.values():
                if not (isinstance(leaf, str) or (isinstance(leaf, list) and all(isinstance(z, str) for z in leaf))):
                    return True
                if isinstance(leaf, str) and leaf.lower() in ("true", "false") and leaf != leaf.lower():
                    return True
    return False


class FunctionDictSurface(ResolveSurface):
    """the same expression handed over as pycfmodel FunctionDict OBJECTS (what model attributes hold before resolution)"""
    name = "resolver.resolve(FunctionDict objects, params, mappings, conditions)"

    @staticmethod
    def objectify(v):
        from pycfmodel.model.base import FunctionDict
        from pycfmodel.utils import is_resolvable_dict
        if isinstance(v, dict):
            if is_resolvable_dict(v):
                k = next(iter(v))
                return FunctionDict(**{k: v[k]})        # the body stays plain data, as after model validation
            return {k: FunctionDictSurface.objectify(x) for k, x in v.items()}
        if isinstance(v, list):
            return [FunctionDictSurface.objectify(x) for x in v]
        return v

    def impl(self, x):
        import copy
        from pycfmodel.resolver import resolve
        return core.impl_call(lambda: resgen.to_wire(resolve(self.objectify(copy.deepcopy(x["expr"])), copy.deepcopy(x["params"]),
                                                             copy.deepcopy(x["mappings"]), dict(x["conds"]))))


RESOLVE = ResolveSurface()
FDICT = FunctionDictSurface()
E2E = tplgen.E2ESurface("C01_sound (through CFModel.resolve: C07_resource_local)")
SURFACES = {RESOLVE.name: RESOLVE, FDICT.name: FDICT, E2E.name: E2E}


def corpus():
    p = core.VERIF / "corpus" / "C01.json"
    if p.exists():
        for c in json.loads(p.read_text()):
            yield SURFACES[c["surface"]], wire.unjson(c["input"])


def gen_case(rng, findings=False):
    env = resgen.Env(rng, findings=findings)
    g = resgen.ExprGen(rng, env)
    d = rng.choice([1, 2, 2, 3, 3, 4, 5])
    k = rng.random()
    expr = g.s(d) if k < 0.55 else g.l(d) if k < 0.7 else g.any(d) if k < 0.92 else g.b(d)
    return {"expr": expr, "params": env.params, "mappings": env.mappings, "conds": env.conds}


def cases(rng, tier, shard, nshards):
    resgen.check_alphabet()
    if shard == 0:
        yield from corpus()
    n = {"quick": 2500, "thorough": 25000}[tier]
    for k in range(n):
        yield RESOLVE, gen_case(rng)
        if k % 4 == 1:
            yield FDICT, gen_case(rng)
        if k % 3 == 0:
            yield E2E, tplgen.gen_template(rng, focus="values")
        if k % 12 == 5:
            # instances of EVERY modelled class built from the live schema, with functions (resolvable or not) in every position
            # typed Resolvable[...]: valid by construction, so the implementation must resolve them (agree is strict for these)
            y = tplgen.gen_typed_template(rng, resolvable=True)
            yield E2E, {"template": y["template"], "extra": y["extra"], "valid": True}


def reproduce_known(f):
    if f["id"] == "F14b":
        # the model follows the pinned behaviour (leaf returned raw); the PROPERTY asks for the rendered text
        x = wire.unjson(f["witness"]["input"])
        i = RESOLVE.impl(x)
        return i[0] == "OK" and not isinstance(i[1], str)
    rn = core.Runner()
    try:
        surf = SURFACES[f["witness"]["surface"]]
        x = wire.unjson(f["witness"]["input"])
        i, m = surf.impl(x), surf.model(rn, x)
        return not surf.agree(x, i, m)
    finally:
        rn.close()
