"""C15 -- serialise / validate round trip is lossless."""
import base64
import copy
import datetime
import ipaddress
import json
import os

import core
import schemagen
import tplgen
import wire
from wire import Typed

ID = "C15"
TABLES = ["schema", "functions"]
BUDGET = {"quick": (4, 55), "thorough": (16, 400)}
EXTRA_TARGETS = ["theories/Typed/SchemaChecks.vo", "theories/Typed/RoundtripTable.vo", "theories/Typed/UnionStable.vo"]
GEN_OBLIGATIONS = [
    "Typed/RoundtripTable.v:Schema_table_wf (field names distinct, defaults / hooks on the types the proof needs, remove_colon classes colon-free)",
    "Typed/RoundtripTable.v:Schema_modelled_wf (every modelled class: required Type : Literal[its own string]; GenericResource.Type guarded)",
    "Typed/RoundtripTable.v:Schema_unions_count (the distinct unions of the live table; what must hold of each is TABLE_UNIONS_ok)",
    "Typed/UnionStable.v:TABLE_UNIONS_ok (every distinct union of the live classes is of a shape the stability lemmas cover)",
    "Typed/UnionStable.v:TABLE_UNIONS_classified (13 by the shape argument, Resolvable[Union[int,str]] and ResolvableIPOrStrOrList "
    "by their own lemmas)",
    "Typed/SchemaChecks.v:Schema_private_eq (classes with private attributes define __eq__)", "Typed/SchemaChecks.v:Schema_hooks",
    "Typed/SchemaChecks.v:Schema_extra", "Typed/SchemaChecks.v:Schema_resolvable",
]
RULE = ("templates built from the generated schema (tplgen.gen_typed_template + schemagen): resources of every modelled type with every "
        "field type the classes declare -- strings, ints as int and str, semi-strict bools as bool / 'true' / 'TRUE', dates, datetimes as "
        "ISO text and epoch numbers, IPv4 / IPv6 networks incl. wide ones (/0, /8) and host bits, base64 binaries, nested Policy / "
        "PolicyDocument / Statement / Principal / StatementCondition (every operator family) / Tag (numeric and bool values) / "
        "security-group rules, generic sub-objects and generic resources holding dates, ints, bools, networks, nested lists, JSON text and "
        "function objects, unresolved function objects in every Resolvable position -- taken through parse, parse+resolve and "
        "parse+expand_actions; for each model m: CFModel(**m.model_dump()) == m, equality of the two object graphs node by node "
        "(value, Python type, model class), equality of the two dumps, every pydantic-core leaf accepts its own output; the schema "
        "interpreter (Coq) re-validates the same dumped data and must build the same graph.  Plus pycfmodel's own leaf validators "
        "against their Gallina models on random inputs.  non-trivial = template with >= 2 typed (non-str) leaves or a function "
        "object, or a leaf input that is not already in validated form; distinct by hash of (surface, input).")
ASSUMPTIONS = [
    "observable of the property: CFModel(**m.model_dump()) in PYTHON mode; model_dump(mode='json') is outside it (it is not re-validatable: "
    "see the report)",
    "templates that parse refuses, or on which resolve / expand_actions raise, are outside this property (C05 / C19): counted as undefined",
    "pydantic-core's str / int / PositiveInt / bool / date / datetime validators and class Generic are oracles: their hypothesis "
    "(accepts its own output unchanged) is CHECKED on every leaf of every generated model with TypeAdapter(type).validate_python",
    "a smart-mode Union is modelled as first-accepting-member (on the unions of the live classes the members are shape-disjoint or the "
    "first member wins anyway); the interpreter surface checks this against pydantic on every dumped model",
    "union stability (hypothesis of C15_roundtrip) is PROVED for the live table (Typed/UnionStable.v, C15_union_stability_live_schema) "
    "from shape facts about pydantic-core's lax validators, each CHECKED on every node of every generated model (leaf_violations): "
    "str accepts nothing but str / bytes-like input; str, int and datetime refuse a list; str refuses a dict",
    "bytes-like input where a text is expected is OUTSIDE the domain (JSON / YAML data holds none): pydantic's lax str decodes it, and "
    "then Resolvable[Union[int,str]] (bytearray(b'7') -> '7' -> 7) and ResolvableIPOrStrOrList (b'10.0.0.0/8' -> '10.0.0.0/8' -> "
    "IPv4Network) do not round-trip (C15_int_str_fn_unstable_on_bytes, C15_ip_or_str_unstable_on_bytes; their antecedents are checked "
    "against the running pydantic in extra_checks); the two residual premises of the theorem say exactly this and follow from 'the "
    "oracle never accepts bytes for str' (the runner's instance declines: EUndefined).  The runner still re-validates inside the "
    "model (op 1521) on every generated dump",
    "IPv6 networks are carried as their exploded text (C17's print6_full); str(IPv6Network) -- what ipaddress parses when handed a network "
    "object -- is the compressed spelling of the same network (checked per leaf)",
    "SemiStrictBool / Effect use str.lower() / str.capitalize(): modelled on ASCII; extra_checks verifies over all of Unicode that no "
    "non-ASCII code point lower-cases into a letter of 'true' / 'false'",
]
MODELLED = ("pydantic's engine is modelled by the schema interpreter (Typed/Roundtrip.v) over the GENERATED class table and tied by running "
            "both on the same dumped models; pycfmodel's own validators (SemiStrictBool, LooseIPv4/6Network, validate_binary incl. a faithful "
            "binascii.a2b_base64, Tag coercions, Effect, remove_colon, FunctionDict) are hand-written Gallina models tied one by one on "
            "random inputs; pydantic-core scalar validators and Generic are oracles with checked hypotheses")


# ---------------------------------------------------------------------------------------------
# Python objects -> model values

def to_wire(v):
    """like resgen.to_wire, IPv6 networks as exploded text (= Net/IPv6.v print6_full)"""
    if v is None or isinstance(v, (bool, int, str)):
        return v
    if isinstance(v, float):
        return Typed("float", str(v))
    if isinstance(v, datetime.datetime):
        return Typed("datetime", str(v))
    if isinstance(v, datetime.date):
        return Typed("date", str(v))
    if isinstance(v, ipaddress.IPv4Network):
        return Typed("net4", str(v))
    if isinstance(v, ipaddress.IPv6Network):
        return Typed("net6", v.exploded)
    if isinstance(v, (bytes, bytearray)):
        return bytes(v)
    if isinstance(v, (list, tuple)):
        return [to_wire(x) for x in v]
    if isinstance(v, dict):
        return {str(k): to_wire(x) for k, x in v.items()}
    if hasattr(v, "model_dump"):
        return to_wire(v.model_dump())
    raise TypeError(f"to_wire: {type(v)}")


def walk_full(v):
    """the object graph with the Python type / model class of every node (Generic and FunctionDict instances included)"""
    from pydantic import BaseModel
    if isinstance(v, BaseModel):
        out = {"__class__": type(v).__name__, "fields": {k: walk_full(getattr(v, k)) for k in type(v).model_fields}}
        if v.model_extra:
            out["extra"] = {k: walk_full(x) for k, x in v.model_extra.items()}
        return out
    if isinstance(v, list):
        return [walk_full(x) for x in v]
    if isinstance(v, dict):
        return {"__dict__": {str(k): walk_full(x) for k, x in v.items()}}
    return [type(v).__name__, to_wire(v)]


def walk_erased(v):
    """the graph as the schema interpreter pictures it (Typed/RoundtripRun.v erase): Generic / FunctionDict are opaque leaves"""
    from pydantic import BaseModel
    from pycfmodel.model.base import FunctionDict
    from pycfmodel.model.generic import Generic
    if isinstance(v, (Generic, FunctionDict)):
        return to_wire(v.model_dump())
    if isinstance(v, BaseModel):
        return {"__class__": type(v).__name__, "fields": {k: walk_erased(getattr(v, k)) for k in type(v).model_fields},
                "extra": to_wire(dict(v.model_extra or {}))}
    if isinstance(v, list):
        return [walk_erased(x) for x in v]
    if isinstance(v, dict):
        return {str(k): walk_erased(x) for k, x in v.items()}
    return to_wire(v)


_ADAPTERS = {}


def _core_adapter(t):
    from pydantic import TypeAdapter
    ta = _ADAPTERS.get(("core", t))
    if ta is None:
        ta = _ADAPTERS[("core", t)] = TypeAdapter(t)
    return ta


def core_refuses(t, v):
    """pydantic-core's lax validator of t refuses v with a ValidationError -> None; anything else -> a description"""
    from pydantic import ValidationError
    try:
        w = _core_adapter(t).validate_python(v)
    except ValidationError:
        return None
    except Exception as e:  # noqa
        return type(e).__name__
    return "accepted: " + repr(w)[:80]


def shape_violations(v):
    """the shape premises of C15_union_stability_live_schema (Typed/UnionStable.v) on ONE node of an object graph:
       core_str_takes_text_or_bytes   lax str accepts nothing but str / bytes-like input
       core_str_refuses_list, core_int_refuses_list, core_datetime_refuses_list
       core_str_refuses_dict          (a model instance is checked through the shallow dict of its fields)"""
    from pydantic import BaseModel
    bad = []
    if isinstance(v, (list, tuple)):
        v = list(v)
        for name, t in (("core_str_refuses_list", str), ("core_int_refuses_list", int), ("core_datetime_refuses_list", datetime.datetime)):
            r = core_refuses(t, v)
            if r is not None:
                bad.append([name, repr(v)[:120], r])
    elif isinstance(v, (dict, BaseModel)):
        d = dict(v)
        r = core_refuses(str, d)
        if r is not None:
            bad.append(["core_str_refuses_dict", repr(d)[:120], r])
    elif not isinstance(v, (str, bytes, bytearray)):
        r = core_refuses(str, v)
        if r is not None:
            bad.append(["core_str_takes_text_or_bytes", repr(v)[:120], r])
    return bad


def leaf_violations(m):
    """hypothesis check: every scalar leaf of the object graph is accepted back, unchanged, by the validator of its own type
    (pydantic-core: str, int, bool, date, datetime; and the network / bytes objects by pycfmodel's validators); and every node
    of the graph meets the shape premises of the union-stability theorem (shape_violations)"""
    from pydantic import BaseModel, TypeAdapter
    import pycfmodel.model.types as T
    kinds = {str: str, int: int, bool: bool, datetime.date: datetime.date, datetime.datetime: datetime.datetime,
             ipaddress.IPv4Network: T.LooseIPv4Network, ipaddress.IPv6Network: T.LooseIPv6Network, bytes: T.Binary}
    bad = []

    def visit(v):
        bad.extend(shape_violations(v))
        if isinstance(v, BaseModel):
            for k in type(v).model_fields:
                visit(getattr(v, k))
            for x in (v.model_extra or {}).values():
                visit(x)
        elif isinstance(v, (list, tuple)):
            for x in v:
                visit(x)
        elif isinstance(v, dict):
            for x in v.values():
                visit(x)
        elif v is not None and type(v) in kinds:
            ta = _ADAPTERS.get(type(v))
            if ta is None:
                ta = _ADAPTERS[type(v)] = TypeAdapter(kinds[type(v)])
            try:
                w = ta.validate_python(v)
                if type(w) is not type(v) or w != v:
                    bad.append([type(v).__name__, repr(v), repr(w)])
                if isinstance(v, ipaddress.IPv6Network) and ipaddress.IPv6Network(v.exploded) != v:
                    bad.append(["IPv6Network.exploded", repr(v), v.exploded])
            except Exception as e:  # noqa
                bad.append([type(v).__name__, repr(v), type(e).__name__])
    visit(m)
    return bad


def touch_conditions(m):
    """evaluate every statement condition once, so that the lazily built `_eval` caches are populated before comparing"""
    for r in m.Resources.values():
        try:
            for c in r.all_statement_conditions:
                c({})
        except Exception:  # noqa
            pass


def staged(x):
    """the model the case is about: parse(template), then the stage's transformation"""
    import pycfmodel
    m = pycfmodel.parse(copy.deepcopy(x["template"]))
    if x["stage"] == "resolve":
        m = m.resolve(copy.deepcopy(x["extra"]))
    elif x["stage"] == "expand":
        m = m.expand_actions()
    return m


LIMIT = 4.0


def staged_limited(x):
    """-> ("OK", model) | ("UNDEFINED",) the template is not accepted / the transformation raises (C05, C19) |
    ("TIMEOUT",) the time limit fired: a hang is a reportable outcome of this property (both transformations are built on the
    dump / validate round trip), never a reason to skip the case"""
    t0 = os.times().user
    try:
        with core.time_limit(LIMIT, cpu=True):
            m = staged(x)
    except core.Timeout:
        return ("TIMEOUT",)
    except RecursionError:
        return ("UNDEFINED",)
    except Exception:  # noqa
        return ("TIMEOUT",) if os.times().user - t0 >= LIMIT else ("UNDEFINED",)
    return ("TIMEOUT",) if os.times().user - t0 >= LIMIT else ("OK", m)


class RoundtripSurface(core.Surface):
    name = "CFModel(**m.model_dump()) == m"
    theorem = "C15_roundtrip_template_no_union_hypothesis (C15_roundtrip_template with union stability proved)"
    shrinkable = False      # a hang (time limit) would be re-run for every shrink candidate

    def impl(self, x):
        from pycfmodel.model.cf_model import CFModel
        st = staged_limited(x)
        if st[0] == "TIMEOUT":
            return ("EXC", "TIMEOUT", "Timeout")
        if st[0] != "OK":
            return ("EXC", "NOT-A-MODEL", "")
        m = st[1]

        def run():
            if x.get("touch"):
                touch_conditions(m)
            d = m.model_dump()
            m2 = CFModel(**d)
            return {"equal": bool(m2 == m), "graph_equal": walk_full(m2) == walk_full(m),
                    "dump_equal": to_wire(m2.model_dump()) == to_wire(d), "leaf_violations": leaf_violations(m)}
        t0 = os.times().user
        r = core.impl_call(run, limit=LIMIT, cpu=True)
        if os.times().user - t0 >= LIMIT:
            # the time limit fired; pydantic may have swallowed the exception and carried on: still a timeout
            return ("EXC", "TIMEOUT", "Timeout")
        return r

    def model(self, rn, x):
        if staged_limited(x)[0] == "UNDEFINED":
            return ("EXC", "EUndefined", "")
        return ("OK", {"equal": True, "graph_equal": True, "dump_equal": True, "leaf_violations": []})

    def tags(self, x):
        return {"stage:" + x["stage"]} | {"leaf:" + k for k in x.get("leaves", {})} | ({"touch"} if x.get("touch") else set())

    def nontrivial(self, x, i, m):
        lv = x.get("leaves", {})
        typed = sum(n for k, n in lv.items() if k in ("int", "semibool", "date", "datetime", "net4", "net6", "binary", "strnum", "bool", "posint"))
        return typed >= 2 or any(k.startswith("fn@") for k in lv)

    def describe(self, x):
        return {k: v for k, v in x.items() if k != "leaves"}


def first_diff(a, b, path=""):
    if type(a) is not type(b):
        return f"{path}: {str(a)[:120]!r} vs {str(b)[:120]!r}"
    if isinstance(a, dict):
        for k in sorted(set(a) | set(b)):
            if k not in a or k not in b:
                return f"{path}/{k}: only on one side"
            r = first_diff(a[k], b[k], path + "/" + k)
            if r:
                return r
        return None
    if isinstance(a, list):
        if len(a) != len(b):
            return f"{path}: lengths {len(a)} vs {len(b)}"
        for i, (p, q) in enumerate(zip(a, b)):
            r = first_diff(p, q, f"{path}[{i}]")
            if r:
                return r
        return None
    return None if a == b else f"{path}: {a!r} vs {b!r}"


class InterpreterSurface(core.Surface):
    """the Coq schema interpreter and pydantic re-validate the SAME dumped data; the two object graphs (values, leaf types, model
    classes) must be the same, the interpreter's dump must be the data it was given, and its own round trip must be an equality"""
    name = "schema interpreter on m.model_dump() vs pydantic"
    theorem = "C15_roundtrip_live_schema (tie of Typed/Roundtrip.v validate to pydantic)"
    shrinkable = False

    def impl(self, x):
        from pycfmodel.model.cf_model import CFModel
        st = staged_limited(x)
        if st[0] != "OK":
            return ("EXC", "TIMEOUT" if st[0] == "TIMEOUT" else "NOT-A-MODEL", "")
        m = st[1]

        def run():
            m2 = CFModel(**m.model_dump())
            return {"same_graph_as_original": walk_erased(m) == walk_erased(m2), "interpreter": "agrees"}
        t0 = os.times().user
        r = core.impl_call(run, limit=LIMIT, cpu=True)
        return ("EXC", "TIMEOUT", "Timeout") if os.times().user - t0 >= LIMIT else r

    def model(self, rn, x):
        from pycfmodel.model.cf_model import CFModel
        st = staged_limited(x)
        if st[0] == "UNDEFINED":
            return ("EXC", "EUndefined", "")
        expected = ("OK", {"same_graph_as_original": True, "interpreter": "agrees"})
        if st[0] == "TIMEOUT":
            return expected
        m = st[1]
        t0 = os.times().user
        try:
            with core.time_limit(LIMIT, cpu=True):
                d = to_wire(m.model_dump())
                g = walk_erased(CFModel(**m.model_dump()))
        except BaseException:  # noqa
            return expected       # the implementation side reports what happened (error or timeout)
        if os.times().user - t0 >= LIMIT:
            return expected
        r = core.model_res(rn.call(1522, [True, "CFModel", d, g]))
        if r[0] != "OK":
            return r
        verdict = "agrees"
        if r[1] != [True, True, True]:
            full = core.model_res(rn.call(1520, [True, "CFModel", d], sample=False))
            verdict = {"graph_equal/dump_equal/model_roundtrip": r[1],
                       "first_difference": first_diff(core.canon(g), core.canon(full[1][0])) if full[0] == "OK" else full}
        return ("OK", {"same_graph_as_original": True, "interpreter": verdict})

    def agree(self, x, i, m):
        if i[0] == "EXC" and m[0] == "EXC":
            return True
        return core.Surface.agree(self, x, i, m)

    def tags(self, x):
        return {"interp", "stage:" + x["stage"]}

    def nontrivial(self, x, i, m):
        return i[0] == "OK"

    def describe(self, x):
        return {k: v for k, v in x.items() if k != "leaves"}


# ---------------------------------------------------------------------------------------------
# pycfmodel's own leaf validators, one by one

def _net_in(v):
    """case input -> the Python object handed to the validator"""
    if isinstance(v, dict) and "net4" in v:
        return ipaddress.IPv4Network(v["net4"], strict=False)
    if isinstance(v, dict) and "net6" in v:
        return ipaddress.IPv6Network(v["net6"], strict=False)
    if isinstance(v, dict) and "bytes" in v:
        return bytes(v["bytes"])
    return v


class LeafSurface(core.Surface):
    """one validator of pycfmodel/model/types.py (or a validator hook) against its Gallina model"""
    theorem = "Typed/Leaves.v (models of pycfmodel's own validators)"

    def __init__(self, name, op, run):
        self.name = name
        self.op = op
        self.run = run

    def impl(self, x):
        v = _net_in(x["v"])
        return core.impl_call(lambda: to_wire(self.run(v)))

    def model(self, rn, x):
        return core.model_res(rn.call(self.op, [to_wire(_net_in(x["v"]))]))

    def tags(self, x):
        return {"leaf-validator", type(_net_in(x["v"])).__name__}

    def nontrivial(self, x, i, m):
        return i[0] == "EXC" or wire.jsonable(i[1]) != wire.jsonable(to_wire(_net_in(x["v"])))


def _ta(name):
    from pydantic import TypeAdapter
    import pycfmodel.model.types as T
    from pycfmodel.model.base import FunctionDict
    ta = _ADAPTERS.get(name)
    if ta is None:
        ta = _ADAPTERS[name] = TypeAdapter({"FunctionDict": FunctionDict}.get(name) or getattr(T, name))
    return ta


def _fn_dict(v):
    return _ta("FunctionDict").validate_python(copy.deepcopy(v)).model_dump()


def _tag_value(v):
    from pycfmodel.model.resources.properties.tag import Tag
    return Tag(Key="k", Value=v).Value


def _effect(v):
    from pycfmodel.model.resources.properties.statement import Statement
    return Statement(Effect=v).Effect


def _colon_keys(v):
    from pycfmodel.model.resources.properties.statement_condition import StatementCondition
    return list(StatementCondition.remove_colon(copy.deepcopy(v)).keys())


SEMIBOOL = LeafSurface("SemiStrictBool", 1501, lambda v: _ta("SemiStrictBool").validate_python(v))
NET4 = LeafSurface("LooseIPv4Network", 1502, lambda v: _ta("LooseIPv4Network").validate_python(v))
NET6 = LeafSurface("LooseIPv6Network", 1503, lambda v: _ta("LooseIPv6Network").validate_python(v))
BINARY = LeafSurface("Binary (validate_binary)", 1504, lambda v: bytes(_ta("Binary").validate_python(v)))
TAGV = LeafSurface("Tag.Value", 1506, _tag_value)
EFFECT = LeafSurface("Statement.Effect", 1507, _effect)
FNDICT = LeafSurface("FunctionDict", 1509, _fn_dict)
def _b64(v):
    import binascii
    try:
        return base64.b64decode(v)
    except binascii.Error:
        raise ValueError("binascii.Error")


B64 = LeafSurface("base64.b64decode", 1510, _b64)


class ColonSurface(LeafSurface):
    def model(self, rn, x):
        return ("OK", rn.call(1508, [x["v"]]))


COLON = ColonSurface("StatementCondition.remove_colon", 1508, _colon_keys)
ROUNDTRIP, INTERP = RoundtripSurface(), InterpreterSurface()
SURFACES = {s.name: s for s in (ROUNDTRIP, INTERP, SEMIBOOL, NET4, NET6, BINARY, TAGV, EFFECT, FNDICT, B64, COLON)}

B64_ALPHABET = "ABCDEFGHIJKLMNOPQRSTUVWXYZabcdefghijklmnopqrstuvwxyz0123456789+/"


def gen_b64(rng):
    k = rng.random()
    if k < 0.35:
        return base64.b64encode(bytes(rng.randrange(256) for _ in range(rng.randint(0, 9)))).decode()
    n = rng.randint(0, 12)
    return "".join(rng.choice(B64_ALPHABET) if rng.random() < 0.7 else rng.choice("==== \n-_.!é") for _ in range(n))


def gen_leaf_cases(rng, n):
    strs = schemagen.STRS + ["TRUE", "tRuE", "FALSE", "yes", "no", "1", "0", "on", " true", "true ", "truе", "ＴＲＵＥ", "Allow", "DENY",
                             "aLLoW", "deny ", "allowed", "Permit", "Ａllow", "ǅeny"]
    for _ in range(n):
        scal = rng.choice([None, True, False, 0, 1, 5, -1, 2 ** 31, 2 ** 32 - 1, 2 ** 32, 2 ** 128 - 1, 2 ** 128, ["true"], {"a": "true"}, [], {}])
        yield SEMIBOOL, {"v": rng.choice([rng.choice(strs), scal, rng.choice(schemagen.BOOLS)])}
        k = rng.random()
        if k < 0.4:
            v4 = rng.choice(schemagen.NET4 + ["10.0.0.0/33", "256.1.1.1/8", "1.2.3/8", "10.0.0.0/8/8", "", "01.2.3.4", "1.2.3.4/255.255.0.255",
                                              "::/0", "10.0.0.0/-1", " 10.0.0.0/8", "10.0.0.0/ 8", "10.0.0.0/08", "1.2.3.4/0.0.0.0"])
        elif k < 0.6:
            v4 = {"net4": rng.choice(schemagen.NET4)}
        elif k < 0.7:
            v4 = {"net6": rng.choice(schemagen.NET6)}
        elif k < 0.8:
            v4 = {"bytes": [rng.randrange(256) for _ in range(rng.choice([4, 4, 3, 16]))]}
        else:
            v4 = scal
        yield NET4, {"v": v4}
        k = rng.random()
        if k < 0.4:
            v6 = rng.choice(schemagen.NET6 + ["::/129", "1::2::3", "12345::/8", "::1/", "2001:db8::/032", "1:2:3:4:5:6:7:8:9/8", "10.0.0.0/8", "g::/8",
                                              "::ffff:1.2.3.4/96", "1:2:3:4:5:6:1.2.3.4", ":/8", ""])
        elif k < 0.6:
            v6 = {"net6": rng.choice(schemagen.NET6)}
        elif k < 0.7:
            v6 = {"net4": rng.choice(schemagen.NET4)}
        elif k < 0.8:
            v6 = {"bytes": [rng.randrange(256) for _ in range(rng.choice([16, 16, 4, 15]))]}
        else:
            v6 = scal
        yield NET6, {"v": v6}
        k = rng.random()
        if k < 0.6:
            vb = gen_b64(rng)
        elif k < 0.8:
            vb = {"bytes": [rng.randrange(256) for _ in range(rng.randint(0, 8))]}
        else:
            vb = scal
        yield BINARY, {"v": vb}
        s = gen_b64(rng)
        if all(ord(c) < 128 for c in s):
            yield B64, {"v": s if rng.random() < 0.5 else {"bytes": list(s.encode())}}
        tv = rng.choice([rng.choice(strs), scal, 1.5, -0.0, 1e20, 12345678901234567890, 0.1, -7])
        if not isinstance(tv, dict):      # a function object is the other member of Resolvable[str], not this leaf
            yield TAGV, {"v": tv}
        yield EFFECT, {"v": rng.choice(strs + ["allow", "Deny", "dENY", "ALLOW", "", "a", {"Ref": "E"}, {"Fn::If": ["C1", "Allow", "Deny"]}])}
        yield FNDICT, {"v": rng.choice(schemagen.FN_OBJECTS + [{"Ref": "a", "b": 1}, {}, {"NotAFn": 1}, {"Fn::Foo": 1}, {"Condition": "C1"}, "Ref", ["Ref"],
                                                                 None, {"Fn::Transform": {}}, {"Fn::Cidr": []}, {"ref": "x"}, {"Fn::GetAtt": None}])}
        keys = rng.sample(["ForAnyValue:StringLike", "StringEquals", "ForAllValues:ArnLike", "Bool", "a:b:c", ":", "::x", "é:中", "Null", "IpAddress:"],
                          rng.randint(0, 4))
        yield COLON, {"v": {k: {"k": "v"} for k in keys}}


def gen_roundtrip_case(rng, stage):
    t = tplgen.gen_typed_template(rng, resolvable=(stage == "resolve"))
    return {"stage": stage, "template": t["template"], "extra": t["extra"] if stage == "resolve" else {}, "leaves": t["leaves"],
            "touch": rng.random() < 0.3}


def corpus():
    p = core.VERIF / "corpus" / "C15.json"
    if p.exists():
        for c in json.loads(p.read_text()):
            yield SURFACES[c["surface"]], c["input"]


def cases(rng, tier, shard, nshards):
    if shard == 0:
        yield from corpus()
    n = {"quick": 90, "thorough": 520}[tier]
    for k in range(n):
        stage = ("parse", "resolve", "expand")[k % 3]
        x = gen_roundtrip_case(rng, stage)
        yield ROUNDTRIP, x
        yield INTERP, x
        if k % 2 == 0:
            # the template generator of the resolver family: intrinsic functions everywhere, then resolved
            g = tplgen.gen_template(rng)
            y = {"stage": rng.choice(["parse", "resolve", "expand"]), "template": g["template"], "extra": g["extra"], "leaves": {"str": 1}}
            yield ROUNDTRIP, y
            yield INTERP, y
        if k % 4 == 0:
            yield from gen_leaf_cases(rng, 6)


def extra_checks(tier, seed, stats, broken):
    """(1) every leaf kind / class of the generated schema occurred in the generated templates; (2) ASCII case mapping decides the
    validators that use str.lower(); (3) the shape premises of the union-stability theorem on fixed samples; (4) the facts about
    pydantic behind the two bytes witnesses"""
    want = schemagen.leaf_kinds_in_schema()
    seen = {k[len("tag:leaf:"):] for k in stats.dist if k.startswith("tag:leaf:")}
    missing = sorted(k for k in want if k not in seen)
    # a class of the live schema that did not exist when the generators were written (harness/schema_baseline.json) and that they
    # do not reach is a REMARK for the evidence, not a failure of this check: e.g. a class added for a template section
    try:
        known = set(json.loads((core.VERIF / "harness" / "schema_baseline.json").read_text()))
    except Exception:   # noqa
        known = None
    if known is not None:
        new_classes = [k for k in missing if k.startswith("model:") and k[len("model:"):] not in known]
        for k in new_classes:
            core.note(ID, f"{k[len('model:'):]}: a class of the live schema that is newer than the generators (not in harness/schema_baseline.json) "
                          "and is not exercised by them; the round-trip theorem covers it through the regenerated table, the correspondence does not")
        missing = [k for k in missing if k not in new_classes]
    if missing and stats.evaluations > 200:
        yield {"sig": "uncovered-field-types", "surface": "harness", "theorem": "coverage of the generated schema", "tags": ["coverage"],
               "input": {"uncovered": missing}, "impl": None, "model": None, "shard": None, "crash": True}
    # (3) the shape premises on fixed samples of every kind of value (beyond the nodes of the generated models)
    net4, net6 = ipaddress.IPv4Network("10.0.0.0/8"), ipaddress.IPv6Network("2001:db8::/32")
    samples = [None, True, False, 0, 1, -1, 2 ** 64, 1.0, 1.5, float("nan"), datetime.date(2020, 1, 2), datetime.datetime(2020, 1, 2, 3, 4, 5),
               net4, net6, [], ["a"], [1], ["5"], [[1]], [None], [b"a"], [{"a": 1}], [datetime.datetime(2020, 1, 1)], ["2020-01-01T00:00:00"], [0.5],
               {}, {"a": 1}, {"Ref": "x"}, {"Fn::Sub": "a"}, {"a": "b", "c": ["d"]}, {"1": 1}, (), ("a",), (1, 2)]
    stale = [b for v in samples for b in shape_violations(v)]
    if stale:
        yield {"sig": "union-shape-premise", "surface": "harness", "theorem": "C15_union_stability_live_schema (shape premises)",
               "tags": ["union-premise"], "input": {"violated": stale[:20]}, "impl": None, "model": None, "shard": None, "crash": True}
    # (4) the antecedents of C15_int_str_fn_unstable_on_bytes / C15_ip_or_str_unstable_on_bytes are facts about the running pydantic
    #     (if they stop being true the two residual premises may be dischargeable: report, so that the statement is revisited)
    import pycfmodel.model.types as T

    def _val(t, v):
        try:
            return _core_adapter(t).validate_python(v)
        except Exception as e:  # noqa
            return type(e).__name__
    facts = {
        "str(b'7') == '7'": _val(str, b"7") == "7",
        "str(bytearray(b'7')) == '7'": _val(str, bytearray(b"7")) == "7",
        "int(bytearray(b'7')) refused": _val(int, bytearray(b"7")) == "ValidationError",
        "int('7') == 7": _val(int, "7") == 7,
        "str(b'10.0.0.0/8') == '10.0.0.0/8'": _val(str, b"10.0.0.0/8") == "10.0.0.0/8",
        "ResolvableIntOrStr: bytearray(b'7') -> '7' -> 7": _val(T.ResolvableIntOrStr, bytearray(b"7")) == "7" and _val(T.ResolvableIntOrStr, "7") == 7,
        "ResolvableIPOrStrOrList: b'10.0.0.0/8' -> '10.0.0.0/8' -> IPv4Network":
            _val(T.ResolvableIPOrStrOrList, b"10.0.0.0/8") == "10.0.0.0/8" and _val(T.ResolvableIPOrStrOrList, "10.0.0.0/8") == net4,
    }
    if not all(facts.values()):
        yield {"sig": "bytes-witness-stale", "surface": "harness", "theorem": "C15_int_str_fn_unstable_on_bytes / C15_ip_or_str_unstable_on_bytes",
               "tags": ["union-premise"], "input": {"no_longer_true": sorted(k for k, ok in facts.items() if not ok)}, "impl": None, "model": None,
               "shard": None, "crash": True}
    letters = set("truefalse")
    odd = [hex(c) for c in range(128, 0x110000) if not 0xD800 <= c < 0xE000 and any(ch in letters for ch in chr(c).lower())]
    if odd:
        yield {"sig": "unicode-lower", "surface": "harness", "theorem": "ASCII model of str.lower()", "tags": ["unicode"],
               "input": {"code_points_lowering_into_true_false_letters": odd[:20]}, "impl": None, "model": None, "shard": None, "crash": True}
