"""C09 -- action expansion obeys set laws over the catalogue, the same in every API."""
import copy
import json

import core

ID = "C09"
TABLES = ["catalogue"]
EXTRA_TARGETS = ["theories/Actions/CatalogueChecks.vo"]
GEN_OBLIGATIONS = ["Catalogue_ok", "Catalogue_spec", "Shipped_expand_is_filter"]
BUDGET = {"quick": (4, 60), "thorough": (16, 420)}
RULE = ("Action/NotAction values built from entries of the LIVE catalogue: exact names, prefix*, ?-substitution, swapped case, "
        "service:*, *-in-the-middle, unknown service, regex metacharacters as literals; single patterns and lists of length 0-6 "
        "with overlapping pairs (s3:Get* + s3:GetObject*) and disjoint pairs; five API surfaces (_expand_actions, "
        "Statement.get_expanded_action_list, PolicyDocument.get_allowed_actions / get_iam_actions with 1-4 statements mixing "
        "Allow/Deny in any letter case, CFModel.expand_actions read back from an AWS::IAM::Policy); about a quarter of the "
        "cases use NotAction (complement ~18k entries). non-trivial = the expected list is neither empty nor the whole "
        "catalogue, or the input holds >= 2 patterns; distinct by hash of (surface, input).")
ASSUMPTIONS = [
    "patterns are single-line printable ASCII (the shipped catalogue is pure ASCII: Catalogue_ok); case-insensitivity is ASCII folding",
    "Statement effects are Allow/Deny in any letter case (anything else is rejected by the model class and not compared)",
    "Action / NotAction members are strings (resolved templates); function-valued members are outside this property",
]
MODELLED = ("regex matching is C08's glob_ci (tied there); set()/sorted() are modelled by nodup_sort with Python's str order; "
            "pydantic validation of Statement/PolicyDocument is not modelled (inputs are well-formed by construction)")

META = list(".+()[]{}|^$\\")
EFFECTS = ["Allow", "Deny", "allow", "deny", "ALLOW", "DENY", "aLLoW", "dEnY"]
_CAT = None


def catalogue():
    global _CAT
    if _CAT is None:
        from pycfmodel.cloudformation_actions import CLOUDFORMATION_ACTIONS
        _CAT = list(CLOUDFORMATION_ACTIONS)
    return _CAT


# ---------------------------------------------------------------------------------------------
# generators

def gen_pattern(rng, cat, small=True):
    a = rng.choice(cat)
    if ":" not in a or a.endswith(":") or a.startswith(":"):
        return a
    svc, name = a.split(":", 1)
    r = rng.random()
    if rng.random() < 0.015:
        return "*"             # the bare wildcard (whole catalogue / nothing), rare because it is expensive
    if r < 0.22:
        return a
    if r < 0.47:
        k = rng.randrange(3 if small and len(name) > 3 else 1, len(name) + 1)
        return svc + ":" + name[:k] + "*"
    if r < 0.57:
        i = rng.randrange(len(name))
        return svc + ":" + name[:i] + "?" + name[i + 1:]
    if r < 0.67:
        return rng.choice([a.swapcase(), a.lower(), a.upper(), svc.upper() + ":" + name[:4].lower() + "*"])
    if r < 0.74:
        return svc + ":*" if not small or rng.random() < 0.5 else svc + ":" + name[:2] + "*"
    if r < 0.80:
        return svc + ":*" + name[-rng.randrange(2, 6):]
    if r < 0.85:
        k = rng.randrange(1, len(name))
        return svc + ":" + name[:k] + "*" + name[-2:]
    if r < 0.90:
        return rng.choice(["nosuchservice:" + name, "nosuchservice:*", svc + "x:" + name, svc + ":" + name + "Zz", "", ":" + name, svc])
    if r < 0.94:
        i = rng.randrange(len(a))
        return a[:i] + rng.choice(META) + a[i + 1:]
    if r < 0.97:
        return rng.choice(["*", "*:*", "*:Get*", "*:" + name, svc[:2] + "*:" + name[:3] + "*", "?" + svc[1:] + ":" + name]) if not small else "*:" + name
    return svc + ":" + name[: max(1, len(name) // 2)] + "??*"


def gen_patterns(rng, cat, small=True):
    n = rng.choice([0, 1, 1, 2, 2, 2, 3, 3, 4, 5, 6])
    out = []
    while len(out) < n:
        r = rng.random()
        if r < 0.25 and n - len(out) >= 2:       # overlapping pair: svc:Pre* + svc:PreLonger*
            a = rng.choice(cat)
            svc, name = a.split(":", 1) if a.count(":") == 1 else ("s3", "GetObject")
            k1 = rng.randrange(1, max(2, len(name)))
            k2 = rng.randrange(k1, len(name) + 1)
            out += [svc + ":" + name[:k1] + "*", rng.choice([svc + ":" + name[:k2] + "*", a])]
        elif r < 0.35 and out:                   # duplicate / case variant of an earlier member
            p = rng.choice(out)
            out.append(rng.choice([p, p.swapcase()]))
        else:                                    # independent (mostly disjoint) member
            out.append(gen_pattern(rng, cat, small))
    rng.shuffle(out)
    return out[:n]


def gen_element(rng, cat, small=True):
    """An Action/NotAction value: a single pattern or a list."""
    if rng.random() < 0.3:
        return gen_pattern(rng, cat, small)
    return gen_patterns(rng, cat, small)


def gen_statement(rng, cat, allow_notaction=True):
    r = rng.random()
    st = {"effect": rng.choice(EFFECTS) if rng.random() < 0.4 else rng.choice(["Allow", "Allow", "Deny"]), "action": None, "notaction": None}
    if r < 0.62 or not allow_notaction:
        st["action"] = gen_element(rng, cat)
    elif r < 0.92:
        st["notaction"] = gen_element(rng, cat)
    elif r < 0.97:
        st["action"] = gen_element(rng, cat)
        st["notaction"] = gen_element(rng, cat)
    if st["action"] is not None and st["notaction"] is None and rng.random() < 0.12:
        # an EMPTY NotAction next to an Action: present, excludes nothing -- the statement allows the complement of nothing as well,
        # i.e. everything (seeded change C09-r7Em1 keyed a memo by (actions, not_actions) and read "absent" as "empty")
        st["notaction"] = []
    if rng.random() < 0.3:
        # a conditional statement, other principals / resources: expansion looks at Action / NotAction (and, for the allowed
        # actions, at the Effect) only (audit experiment 1: "skip Allow statements that carry a Condition" went unnoticed)
        st["more"] = rng.choice([{"Condition": {"StringEquals": {"aws:PrincipalOrgID": "o-1"}}},
                                 {"Condition": {"IpAddress": {"aws:SourceIp": "192.0.2.0/24"}}, "Principal": "*"},
                                 {"Principal": {"AWS": ["arn:aws:iam::123456789012:root"]}, "Sid": "x"},
                                 {"NotPrincipal": {"Service": "ec2.amazonaws.com"}, "Condition": {"Bool": {"aws:SecureTransport": "false"}}}])
    return st


def small_pattern_of(rng, cat):
    """a service-wide or prefix pattern (matches some but not all of the catalogue)"""
    a = rng.choice(cat)
    svc, name = a.split(":", 1)
    return rng.choice([svc + ":*", svc + ":" + name[:3] + "*", a, "iam:*", "s3:Delete*"])


def gen_statements(rng, cat):
    n = rng.choice([1, 1, 2, 2, 3, 4])
    # at most one statement with NotAction per document keeps the run time bounded (each complement is ~18k entries)
    k = rng.randrange(n) if rng.random() < 0.35 else -1
    return [gen_statement(rng, cat, allow_notaction=(i == k)) for i in range(n)]


# ---------------------------------------------------------------------------------------------
# helpers

def pats_of(v):
    if v is None:
        return []
    return [v] if isinstance(v, str) else list(v)


def elem_tags(prefix, v):
    t = set()
    if v is None:
        return t
    t.add(prefix)
    if isinstance(v, str):
        t.add(prefix + "-single")
    else:
        t.add(prefix + "-list")
        if len(v) == 0:
            t.add(prefix + "-empty")
        if len(v) >= 2:
            t.add(prefix + "-multi")
    if any(c in META for p in pats_of(v) for c in p):
        t.add("regex-meta")
    return t


def stmt_tags(st):
    return elem_tags("action", st.get("action")) | elem_tags("notaction", st.get("notaction"))


def effect_ok(e):
    return isinstance(e, str) and e.capitalize() in ("Allow", "Deny")


def elem_ok(v):
    return v is None or isinstance(v, str) or (isinstance(v, list) and all(isinstance(p, str) for p in v))


def stmt_ok(st):
    return isinstance(st, dict) and effect_ok(st.get("effect")) and elem_ok(st.get("action")) and elem_ok(st.get("notaction"))


def stmt_wire(st):
    return [st["effect"], st.get("action"), st.get("notaction")]


def stmt_kwargs(st):
    kw = {"Effect": st["effect"], "Resource": "*"}
    if st.get("action") is not None:
        kw["Action"] = st["action"]
    if st.get("notaction") is not None:
        kw["NotAction"] = st["notaction"]
    kw.update(copy.deepcopy(st.get("more") or {}))
    return kw


UNDEF = ("EXC", "EUndefined", "")
NCAT = 18000


def interesting(x_pats, m):
    return m[0] == "OK" and (len(x_pats) >= 2 or 0 < len(m[1]) < len(catalogue()))


# ---------------------------------------------------------------------------------------------
# surfaces

class _NoShrink(core.Surface):
    # one evaluation costs 0.1-0.5 s (18k-entry results), so the generic shrinker (400 steps) is not used here:
    # every known witness is in corpus/C09.json in minimal form and runs first
    shrinkable = False


class ExpandActionsSurface(_NoShrink):
    name = "_expand_actions(x, not_action)"
    theorem = "C09_action_mem / C09_notaction_mem / C09_sorted_nodup / C09_apis_agree"
    frozen = frozenset({"na"})

    def impl(self, x):
        _expand_actions = core.helper("pycfmodel.action_expander:_expand_actions")
        return core.impl_call(lambda: _expand_actions(x["x"], not_action=x["na"]))

    def model(self, rn, x):
        if x.get("x") is None or not elem_ok(x.get("x")) or not isinstance(x.get("na"), bool):
            return UNDEF
        return ("OK", rn.call(901, [x["x"], x["na"]], sample=not x["na"]))

    def tags(self, x):
        return {"expand_actions"} | elem_tags("notaction" if x["na"] else "action", x["x"])

    def nontrivial(self, x, i, m):
        return interesting(pats_of(x["x"]), m)


class ExpandActionSurface(_NoShrink):
    name = "_expand_action(p, not_action)"
    theorem = "C09_apis_agree (single pattern = one-element list)"
    frozen = frozenset({"na"})

    def impl(self, x):
        _expand_action = core.helper("pycfmodel.action_expander:_expand_action")
        return core.impl_call(lambda: _expand_action(x["p"], not_action=x["na"]))

    def model(self, rn, x):
        if not isinstance(x.get("p"), str):
            return UNDEF
        return ("OK", rn.call(902, [x["p"], x["na"]], sample=not x["na"]))

    def tags(self, x):
        return {"expand_action"} | elem_tags("notaction" if x["na"] else "action", x["p"])

    def nontrivial(self, x, i, m):
        return interesting([x["p"]], m)


class StatementSurface(_NoShrink):
    name = "Statement.get_expanded_action_list()"
    theorem = "C09_apis_agree_statement / C09_demorgan"
    frozen = frozenset({"effect"})

    def impl(self, x):
        from pycfmodel.model.resources.properties.statement import Statement
        return core.impl_call(lambda: Statement(**stmt_kwargs(x)).get_expanded_action_list())

    def model(self, rn, x):
        if not stmt_ok(x):
            return UNDEF
        return ("OK", rn.call(903, stmt_wire(x), sample=x.get("notaction") is None))

    def tags(self, x):
        return {"statement"} | stmt_tags(x)

    def nontrivial(self, x, i, m):
        return interesting(pats_of(x.get("action")) + pats_of(x.get("notaction")), m)


class EditedStatementSurface(_NoShrink):
    """history: query a statement, CHANGE its Action / NotAction (assignment, and model_copy(update=...)), query again: the second
    answers must describe the new patterns (a result remembered on the object would describe the old ones)"""
    name = "st.get_expanded_action_list(); st.Action/NotAction = ...; st.get_expanded_action_list()"
    theorem = "C09_apis_agree_statement (the expansion is a function of the statement's CURRENT patterns)"

    def impl(self, x):
        from pycfmodel.model.resources.properties.statement import Statement

        def run():
            st = Statement(**stmt_kwargs(x["first"]))
            st.get_expanded_action_list()
            cp = st.model_copy(update={"Action": x["second"].get("action"), "NotAction": x["second"].get("notaction")})
            st.Action = x["second"].get("action")
            st.NotAction = x["second"].get("notaction")
            return [st.get_expanded_action_list(), cp.get_expanded_action_list()]
        return core.impl_call(run)

    def model(self, rn, x):
        if not stmt_ok(x["first"]) or not stmt_ok(x["second"]):
            return UNDEF
        r = rn.call(903, stmt_wire(dict(x["second"], effect=x["first"]["effect"])), sample=False)
        return ("OK", [r, r])

    def tags(self, x):
        return {"statement", "edited-in-place"} | stmt_tags(x["second"])

    def nontrivial(self, x, i, m):
        return m[0] == "OK" and 0 < len(m[1][0]) < NCAT


class DocSurface(_NoShrink):
    op = None
    method = None

    def impl(self, x):
        from pycfmodel.model.resources.properties.policy_document import PolicyDocument
        sts = [stmt_kwargs(s) for s in x["statements"]]
        body = sts[0] if x.get("single") and len(sts) == 1 else sts
        return core.impl_call(lambda: getattr(PolicyDocument(Statement=body), self.method)())

    def model(self, rn, x):
        sts = x.get("statements")
        if not isinstance(sts, list) or not sts or not all(stmt_ok(s) for s in sts):
            return UNDEF
        return ("OK", rn.call(self.op, [stmt_wire(s) for s in sts], sample=all(s.get("notaction") is None for s in sts)))

    def tags(self, x):
        t = {self.tag}
        for s in x["statements"]:
            t |= stmt_tags(s)
            t.add("effect-" + str(s.get("effect")).lower())
        if len(x["statements"]) > 1:
            t.add("multi-statement")
        return t

    def nontrivial(self, x, i, m):
        return interesting([p for s in x["statements"] for p in pats_of(s.get("action")) + pats_of(s.get("notaction"))], m)


class AllowedSurface(DocSurface):
    name = "PolicyDocument.get_allowed_actions()"
    theorem = "C09_apis_agree_document (allowed_actions)"
    op, method, tag = 904, "get_allowed_actions", "allowed"


class IamSurface(DocSurface):
    name = "PolicyDocument.get_iam_actions()"
    theorem = "C09_apis_agree_document (iam_actions)"
    op, method, tag = 905, "get_iam_actions", "iam"


def policy_template(sts):
    body = []
    for s in sts:
        d = {"Effect": s["effect"], "Resource": "*"}
        if s.get("action") is not None:
            d["Action"] = s["action"]
        if s.get("notaction") is not None:
            d["NotAction"] = s["notaction"]
        body.append(d)
    return {"Resources": {"P": {"Type": "AWS::IAM::Policy", "Properties": {
        "PolicyName": "p", "PolicyDocument": {"Version": "2012-10-17", "Statement": body}, "Roles": ["r"]}}}}


class ModelLevelSurface(_NoShrink):
    name = "parse(template).expand_actions() -> Statement Action/NotAction"
    theorem = "C09_apis_agree (model level) / C10_other_sections"

    def impl(self, x):
        import pycfmodel

        def run():
            m = pycfmodel.parse(policy_template(x["statements"])).expand_actions()
            return [[s.Action, s.NotAction] for s in m.Resources["P"].Properties.PolicyDocument.Statement]
        return core.impl_call(run)

    def model(self, rn, x):
        sts = x.get("statements")
        if not isinstance(sts, list) or not sts or not all(stmt_ok(s) for s in sts):
            return UNDEF
        out = rn.call(906, policy_template(sts), sample=all(s.get("notaction") is None for s in sts))
        body = out["Resources"]["P"]["Properties"]["PolicyDocument"]["Statement"]
        return ("OK", [[s.get("Action"), s.get("NotAction")] for s in body])

    def tags(self, x):
        t = {"model-level"}
        for s in x["statements"]:
            t |= stmt_tags(s)
        return t

    def nontrivial(self, x, i, m):
        if m[0] != "OK":
            return False
        return any(v is not None and 0 < len(v) < len(catalogue()) for pair in m[1] for v in pair)


EXPANDS, EXPAND1, STMT, ALLOWED, IAM, MODEL = (ExpandActionsSurface(), ExpandActionSurface(), StatementSurface(),
                                               AllowedSurface(), IamSurface(), ModelLevelSurface())
EDITED = EditedStatementSurface()
SURFACES = {s.name: s for s in (EXPANDS, EXPAND1, STMT, ALLOWED, IAM, MODEL, EDITED)}


def related_patterns(rng, cat):
    """lists whose members are wildcard variants OF EACH OTHER ('?' where the other has '*', a literal where the other has a
    wildcard, a prefix of the other), in both orders: one member must never make another one disappear"""
    a = rng.choice(cat)
    svc, name = a.split(":", 1)
    i = rng.randrange(len(name))
    j = rng.randrange(i, len(name))
    variants = [
        svc + ":" + name[:i] + "?" + name[i + 1:j + 1] + "*",
        svc + ":" + name[:i] + "*" + name[i + 1:j + 1] + "*",
        svc + ":" + name[:i] + "?" + name[i + 1:],
        svc + ":" + name[:i] + "*",
        svc + ":" + name[:j + 1] + "*",
        svc + ":?" + name[1:3] + "*",
        svc + ":*" + name[1:3] + "*",
        a,
        # "at least one more character" against "any continuation": they differ exactly on the action `a` itself
        a + "?*",
        a + "*",
        svc + ":" + name[:j + 1] + "?*",
        # ... and with the question mark AFTER the star (a run of wildcards is not one wildcard): `a*?` does not match `a`
        a + "*?",
        svc + ":" + name[:j + 1] + "*?" + name[j + 1:],
        svc + ":" + name[:i] + "**?" + name[i + 1:],
    ]
    if rng.random() < 0.2:
        return [rng.choice([a + "*?", a + "*?*", a + "**?", svc + ":" + name[:j + 1] + "*?" + name[j + 1:]])]
    if rng.random() < 0.3:
        ps = [a + "?*", a + "*"] if rng.random() < 0.7 else [svc + ":" + name[:j + 1] + "?*", svc + ":" + name[:j + 1] + "*"]
        if rng.random() < 0.3:
            ps.reverse()
        return ps
    ps = rng.sample(variants, rng.randint(2, 4))
    if rng.random() < 0.5:
        ps.reverse()
    return ps


def prepare(rn):
    cat = catalogue()
    n = rn.call(0, cat, sample=False)
    assert n == len(cat)
    # every sampled call is re-evaluated by vm_compute inside Coq against gen/Catalogue.v (one 18k-entry sweep each)
    # -- ~2.5 s per sample, so few of them here; extra_checks adds a broad cross-check on a reduced catalogue
    rn.keep = 1


def crosscheck_state():
    return "{| RState.catalogue := PVGen.Catalogue.CATALOGUE |}", "From PVGen Require Catalogue."


def corpus():
    p = core.VERIF / "corpus" / "C09.json"
    if p.exists():
        for c in json.loads(p.read_text()):
            yield SURFACES[c["surface"]], c["input"]


def cases(rng, tier, shard, nshards):
    cat = catalogue()
    if shard == 0:
        yield from corpus()
    # systematic part (no randomness): every service once as `service:*`, and every catalogue entry whose text is unusual (a
    # character other than letters and digits in the Name, a digit or hyphen in the service) as itself, as `service:*` and as a
    # prefix pattern, through the single-pattern helper, the list helper and the statement -- added after seeded change
    # C09-r4m1, a per-service index that silently dropped the one entry with a hyphen in its Name
    services = sorted({a.split(":", 1)[0] for a in cat})
    for i, svc in enumerate(services):
        if i % nshards == shard:
            yield EXPAND1, {"p": svc + ":*", "na": False}
    import re as _re
    odd = [a for a in cat if not _re.fullmatch(r"[a-z0-9-]+:[A-Za-z0-9]+", a)]
    odd += [a for a in cat if _re.search(r"[0-9-]", a.split(":", 1)[0])][shard::max(1, 40 * nshards)]
    for j, a in enumerate(odd):
        if j % nshards == shard:
            svc, name = a.split(":", 1)
            yield EXPAND1, {"p": a, "na": False}
            yield EXPAND1, {"p": a, "na": True}
            yield EXPANDS, {"x": [svc + ":" + name[: max(1, len(name) // 2)] + "*", a], "na": False}
            yield STMT, {"effect": "Allow", "action": [a], "notaction": None}
            yield STMT, {"effect": "Allow", "action": svc + ":" + name[:3] + "*", "notaction": None}
    if shard == 0:
        # one policy, several statements whose Action lists have the same text when glued together: ["a,b"] (one pattern that contains
        # the separator and matches nothing) and ["a", "b"]; each statement is expanded on its own, at every level of the API
        # (seeded change C09-r7Km1: a memo per expand_actions() call keyed by the comma-joined text)
        for sep in (",", " ", "|", ", "):
            a, b = rng.choice([("s3:GetObject", "s3:PutObject"), ("iam:PassRole", "sts:AssumeRole")])
            sts = [{"effect": "Allow", "action": [a + sep + b], "notaction": None}, {"effect": "Allow", "action": [a, b], "notaction": None},
                   {"effect": "Allow", "action": a + sep + b, "notaction": None}]
            rng.shuffle(sts)
            yield MODEL, {"statements": sts}
            yield ALLOWED, {"statements": sts, "single": False}
    n = {"quick": 115, "thorough": 1000}[tier]
    for k in range(n):
        r = k % 10
        if r in (0, 1, 2):
            na = rng.random() < 0.25
            yield EXPANDS, {"x": gen_element(rng, cat, small=rng.random() < 0.85), "na": na}
        elif r == 3:
            yield EXPAND1, {"p": gen_pattern(rng, cat, small=rng.random() < 0.85), "na": rng.random() < 0.25}
        elif r == 4:
            yield STMT, gen_statement(rng, cat)
        elif r == 5:
            if k % 20 == 5:
                yield EDITED, {"first": gen_statement(rng, cat, allow_notaction=False), "second": gen_statement(rng, cat, allow_notaction=False)}
            else:
                ps = related_patterns(rng, cat)
                na = rng.random() < 0.3
                yield EXPANDS, {"x": ps, "na": na}
                yield MODEL, {"statements": [{"effect": "Allow", "action": None if na else ps, "notaction": ps if na else None}]}
                # ... and through the statement-level and document-level entry points (seeded change C09-r4m2 dropped a list
                # member "covered" by an earlier one inside Statement.get_expanded_action_list only)
                st = {"effect": "Allow", "action": None if na else ps, "notaction": ps if na else None}
                yield STMT, dict(st)
                yield ALLOWED, {"statements": [dict(st)], "single": rng.random() < 0.5}
        elif r == 6:
            yield ALLOWED, {"statements": gen_statements(rng, cat), "single": rng.random() < 0.3}
            if k % 20 == 6:
                # the same patterns allowed positively by one statement and negatively by the next (the "power user" shape): the
                # document allows the union of both (seeded change C09-r5m1 skipped a statement whose flattened action list it had seen)
                ps = gen_patterns(rng, cat) or [gen_pattern(rng, cat)]
                two = [{"effect": "Allow", "action": ps, "notaction": None}, {"effect": "Allow", "action": None, "notaction": ps}]
                if rng.random() < 0.5:
                    two.reverse()
                yield ALLOWED, {"statements": two, "single": False}
                yield IAM, {"statements": two, "single": False}
            if k % 20 == 6 and rng.random() < 0.7:
                # two statements with the SAME Action text, one of them with an empty NotAction beside it
                ps = [small_pattern_of(rng, cat)]
                two = [{"effect": "Allow", "action": list(ps), "notaction": None}, {"effect": "Allow", "action": list(ps), "notaction": []}]
                if rng.random() < 0.5:
                    two.reverse()
                yield ALLOWED, {"statements": two, "single": False}
                yield IAM, {"statements": two, "single": False}
            if k % 20 == 16:
                # two Allow statements with DIFFERENT NotAction lists: the document allows the union of the two complements, i.e.
                # everything outside the intersection (seeded change C09-r6Am1 pooled the NotAction patterns of all statements and
                # took one complement: the complement of the union)
                ps, qs = [small_pattern_of(rng, cat)], [small_pattern_of(rng, cat)]
                two = [{"effect": "Allow", "action": None, "notaction": ps}, {"effect": "Allow", "action": None, "notaction": qs}]
                if rng.random() < 0.4:
                    two.insert(rng.randrange(3), {"effect": rng.choice(["Allow", "Deny"]), "action": gen_patterns(rng, cat) or ["s3:GetObject"], "notaction": None})
                yield ALLOWED, {"statements": two, "single": False}
                yield IAM, {"statements": two, "single": False}
        elif r == 7:
            yield IAM, {"statements": gen_statements(rng, cat) + ([{"effect": rng.choice(EFFECTS), "action": rng.choice(["iam:*", "iam:Pass*", "IAM:get*", "iam:CreateUser", ["iam:List*", "s3:*"]]), "notaction": None}] if rng.random() < 0.6 else []), "single": False}
        elif r == 8:
            yield MODEL, {"statements": gen_statements(rng, cat)}
        else:
            # the same patterns through two APIs in a row (Action, then NotAction of the same list: partition)
            ps = gen_patterns(rng, cat)
            yield STMT, {"effect": "Allow", "action": ps, "notaction": None}
            yield STMT, {"effect": "Allow", "action": None, "notaction": ps}


# ---------------------------------------------------------------------------------------------
# the finite obligation Catalogue_ok: when it no longer compiles, name a concrete offending entry

def catalogue_problems(cat):
    out = []
    if not isinstance(cat, list):
        return [("not-a-list", repr(type(cat)), None)]
    for i, a in enumerate(cat):
        if not isinstance(a, str):
            out.append(("not-a-string", i, repr(a)))
    if out:
        return out
    for i in range(len(cat) - 1):
        if cat[i] == cat[i + 1]:
            out.append(("duplicate", [i, i + 1], [cat[i], cat[i + 1]]))
        elif not cat[i] < cat[i + 1]:
            out.append(("unsorted-neighbours", [i, i + 1], [cat[i], cat[i + 1]]))
    seen = {}
    for i, a in enumerate(cat):
        k = a.lower()
        if k in seen and cat[seen[k]] != a:
            out.append(("case-duplicate", [seen[k], i], [cat[seen[k]], a]))
        elif k in seen and abs(seen[k] - i) > 1:
            out.append(("duplicate", [seen[k], i], [cat[seen[k]], a]))
        seen.setdefault(k, i)
    for i, a in enumerate(cat):
        parts = a.split(":")
        if len(parts) != 2 or not parts[0] or not parts[1]:
            out.append(("not-service:Name", i, a))
        elif "*" in a or "?" in a:
            out.append(("wildcard-character", i, a))
        elif not all(ord(c) < 128 for c in a):
            out.append(("non-ascii", i, a))
    return out


def small_catalogue_crosscheck(seed, broken):
    """Extraction cross-check on every op of run09 with a reduced catalogue (every 160th live entry + a few fixed ones):
    the extracted runner's answers must be reproduced by vm_compute inside Coq."""
    import random
    import wire
    rng = random.Random(f"kc/{seed}")
    cat = catalogue()
    small = sorted(set(cat[::160] + [a for a in cat if a.startswith(("s3:GetObject", "iam:Pass", "iam:GetRole"))]))
    rn = core.Runner(keep_samples=10 ** 6, rng=rng)
    try:
        rn.call(0, small, sample=False)
        for k in range(84):
            r = k % 7
            if r == 0:
                rn.call(901, [gen_element(rng, small), rng.random() < 0.4])
            elif r == 1:
                rn.call(902, [gen_pattern(rng, small), rng.random() < 0.4])
            elif r == 2:
                rn.call(903, stmt_wire(gen_statement(rng, small)))
            elif r == 3:
                rn.call(904, [stmt_wire(s) for s in gen_statements(rng, small)])
            elif r == 4:
                rn.call(905, [stmt_wire(s) for s in gen_statements(rng, small)] + [["Allow", "iam:*", None]])
            elif r == 5:
                rn.call(906, policy_template(gen_statements(rng, small)))
            else:
                rn.call(908, None)
        samples = rn.samples
    finally:
        rn.close()
    st = "{| RState.catalogue := [" + ";".join(wire.coq_str(a) for a in small) + "] |}"
    n, ok, out = core.kernel_crosscheck("C09small", samples, st, "")
    if not ok:
        broken.append({"file": "runner/driver.ml", "theorem": "kernel cross-check of run09 on a reduced catalogue", "message": out})
    return n


def extra_checks(tier, seed, stats, broken):
    import importlib
    if (core.BUILD / "runner").exists():
        stats.bump("kernel_crosscheck_small_catalogue_cases", small_catalogue_crosscheck(seed, broken))
    import pycfmodel.cloudformation_actions as m
    importlib.reload(m)
    vs = []
    seen_kinds = set()
    for kind, where, entry in catalogue_problems(m.CLOUDFORMATION_ACTIONS):
        if kind in seen_kinds:
            continue
        seen_kinds.add(kind)
        vs.append({
            "sig": "catalogue-" + kind, "surface": "pycfmodel.cloudformation_actions.CLOUDFORMATION_ACTIONS",
            "theorem": "Catalogue_ok (theories/Actions/CatalogueChecks.v)", "tags": ["catalogue", kind],
            "input": {"index": where, "entry": entry}, "impl": {"violates": kind},
            "model": "catalogue_ok requires: strictly sorted, no duplicates also ignoring case, service:Name, no * or ?, ASCII",
        })
    return vs
