"""C18 -- generic property casting preserves values."""
import copy
import json
import re
from ipaddress import IPv4Network, IPv6Network

import core
import wire
import generic_oracle as go

ID = "C18"
TABLES = ["generic_tables", "pd_paths"]
BUDGET = {"quick": (4, 50), "thorough": (16, 400)}
RULE = ("JSON values used as property P of a generic resource; leaves drawn from look-alike families (boolean-, integer-, float-, "
        "date-, timestamp-, epoch-, address-looking text and numbers, JSON text of every kind, plain words, null, empty containers), "
        "homogeneous and mixed lists, nested objects (depth <= 4). >= 50% of the leaves are values that must NOT be converted. "
        "non-trivial = the input holds at least one look-alike leaf (anything but a plain word) -- distinct by hash of (surface, input).")
ASSUMPTIONS = [
    "stage 1 (DESIGN 1.4): pydantic's scalar parsers (int/date/datetime), ipaddress, json.loads, float() and the Properties union are "
    "per-node ORACLE annotations computed in isolation; theorem C18_preserves is conditional on all_confirmed (every annotation the "
    "algorithm uses is confirmed by the Gallina checkers denotes_int / denotes_date / denotes_datetime / denotes_net / float_denotes_int); "
    "the share of unconfirmed and accepted-liberal cases is reported under distribution (tag:ann-unconfirmed, tag:conv-liberal)",
    "IPv6 annotations are confirmed only shallowly (character set and prefix length), IPv4 fully (prefix, netmask and hostmask forms)",
    "networks of any width (/0, /7, /8, /10, /12, /32 ...) and lists mixing date-only / midnight text with other timestamps are part of the "
    "domain since defects F11/F12 were repaired (the former guards are kept behind VERIF_NARROW_ONLY for bisecting)",
    "objects recognised by the Properties union (Tag, Statement, ...) are compared by class and canonical dump with the recogniser oracle; "
    "what pydantic does INSIDE a recognised property model is stage 2 (schema interpreter)",
    "property names are ASCII identifiers that do not collide with pydantic BaseModel attributes",
]
MODELLED = ("_Auxiliar.cast / Generic.casting / SemiStrictBool / is_resolvable_dict / the guards of AuxType are hand-modelled (Typed/Cast.v) and tied by "
            "running parse(template).Resources[id].Properties.P and model_dump() on the same inputs; AuxType order+guards, Properties order and "
            "IMPLEMENTED_FUNCTIONS are regenerated (gen/GenericTables.v) and pinned by Typed/PdCheck.v")
EXTRA_TARGETS = ["theories/Typed/PdCheck.vo", "theories/Typed/AuxCheck.vo"]
GEN_OBLIGATIONS = ["AuxCheck.aux_guards_are_spec", "AuxCheck.functions_are_spec", "PdCheck.aux_order_is_spec", "PdCheck.properties_order_is_spec"]

FUNCS = None


def _funcs():
    global FUNCS
    if FUNCS is None:
        FUNCS = go.funcs()
    return FUNCS


# ---------------------------------------------------------------------------------------------
# leaf families

BOOL_LIKE = ["true", "false", "True", "FALSE", "tRuE", " true", "true ", "yes", "no", "on", "off", "1", "0", "t", "f", "y", "n",
             "TRUE", "Yes", "ON", "T", "01", "truee", "tru", "false.", '"true"', "true\n", "Truе",
             # texts that only a Unicode case FOLDING or a compatibility normalisation turns into true / false (seeded change
             # C18-r7Fm1: casefold() instead of lower()): long s, fullwidth letters, a combining mark, the Kelvin-sign trick's cousins
             "fal\u017fe", "FAL\u017fE", "\uff54\uff52\uff55\uff45", "\uff26\uff21\uff2c\uff33\uff25", "true\u0301", "tru\u00e9", "FALSE\u200b",
             "\u24e3\u24e1\u24e4\u24d4"]
INT_LIKE = ["0", "7", "42", "-5", "+5", "007", "00", "-0", "1_000", "1__0", "_1", "1_", " 5", "5 ", "\t5\n", "1e3", "1E3", "+1e3", "5e-1",
            "0x10", "0b1", "0o7", "١٢", "１２", "9223372036854775807", "9223372036854775808", "-9223372036854775809",
            str(2 ** 70), "1,000", "1 000", "--5", "+-5", "5-", "²", "+5.0", "5.00", "12345678901234567890123"]
FLOAT_LIKE = ["1.5", "-1.5", "0.5", ".5", "5.", "+1.5", "1.5e3", "1e-3", "1_0.5", "5.0", "-0.0", "1577836800.5", "NaN", "Infinity",
              "-Infinity", "nan", "inf", "1.5.2", "1,5", "1e400", "2.50", "0.1e1"]
DATE_OK = ["2020-01-01", "2019-12-04", "2024-02-29", "0001-01-01", "9999-12-31", "2012-10-17", "1970-01-01"]
DATE_BAD = ["2020-02-30", "2021-02-29", "2020-13-01", "2020-00-10", "0000-01-01", "10000-01-01", "2020-1-1", "2020/01/01", "01-01-2020",
            "2020-01-01 ", " 2020-01-01", "2020-W01-1", "2020-001", "2020-01", "2020-01-32", "2020-01-01x"]
TIME_OK = ["2011-11-04T00:05:23", "2020-01-01T00:00:01Z", "2020-01-01 00:00:01", "2020-01-01T00:00:01.5", "2020-01-01T00:00:01,5",
           "2020-01-01T00:00:01+01:00", "2020-01-01T00:00:01-0530", "2020-01-01t00:00:01", "2020-01-01T00:05", "2020-06-30T23:59:59.999999",
           "2020-01-01T12:00:00z", "2020-01-01_10:10:10"]
TIME_BAD = ["2020-01-01T24:00:00", "2020-01-01T23:59:60", "2020-01-01T", "12:30", "12:30:00Z", "T00:00:01", "2020-01-01T00:00:01+25:00",
            "2020-02-30T00:00:01", "2020-01-01T1:00:00", "2020-01-01T00:00:01 UTC", "2020-01-01TT00:00:01"]
MIDNIGHT = ["2020-01-01T00:00:00", "2020-01-01 00:00:00", "2020-01-01T00:00:00Z", "2020-01-01T00:00", "2020-01-01T00:00:00.000",
            "2020-01-01T00:00:00+01:00"]          # scalars / object members only (see ASSUMPTIONS)
EPOCH = [0, 1, 86400, 1577836800, 1577836800.0, 1577836800.5, 1.5, -1.5, 0.5, 1577836800000, 1577836800000.5, 2e10, 20000000001.5,
         "1577836800", "86400", "1577836800.0", "-1"]
ADDR_OK = ["10.0.0.1", "10.0.0.1/32", "10.0.0.0/24", "10.0.0.7/24", "192.168.1.0/255.255.255.0", "1.2.3.4/0.0.0.255", "0.0.0.0",
           "255.255.255.255", "1.2.3.4/032", "116.202.65.160/32", "10.1.2.128/25", "::1", "::1/128", "fe80::1/128", "2001:db8::/120",
           "2001:DB8::1", "0:0:0:0:0:0:0:1", "::ffff:1.2.3.4", "::", "2001:db00::0/120", "fe80::1%eth0", "::1/120",
           "10.0.0.0/8", "0.0.0.0/0", "172.16.0.0/12", "10.1.0.0/255.255.0.0", "::/0", "2001:db8::/32", "fc00::/7", "100.64.0.0/10"]
ADDR_BAD = ["256.0.0.1", "01.2.3.4", "1.2.3", "1.2.3.4.5", "1.2.3.4/33", "1.2.3.4/", " 1.2.3.4", "1.2.3.4 ", "1.2.3.4/+8", "1::2::3", ":::",
            "12345::", "::1/129", "1.2.3.4/255.0.255.0", "10.0.0.0//24", "a.b.c.d", "::g"]
JSON_TEXT = ['"x"', '"true"', '"2020-01-01"', "[1,2]", '["a","b"]', '["a",1]', "[]", "{}", '{"a":1}', '[{"a":1}]', "null", " null ", "[null]",
             '["[1]","x"]', '"\\"x\\""', '{"Key":"k","Value":"v"}', '{"Statement":[]}', "[true,false]", "[1.5]", '{"Ref":"x"}', ' {"a":1}',
             "[1,[2,3]]", "[[1,2],[3]]", "{", "[1,", '{"a":}', "'x'", '["true","false"]', '["1","2"]', '["2020-01-01"]', '["10.0.0.1"]',
             '[1,true]', '{"a":{}}', '[{}]', '"1.5"', '" true"', "true", "false", " true ", "[1e3]", '{"Effect":"Allow"}',
             '{"PolicyName":"n","PolicyDocument":{"Statement":[]}}', '"[1,2]"', '[ ]', '{ }', '"10.0.0.1"']
PLAIN = ["potato", "arn:aws:iam::123456789012:user/test-user", "us-east-1", "", " ", "a b", "None", "NULL", "TrueValue", "x1", "v1.2", "1.2.3-beta",
         "tcp", "*", "sg-12345", "s3:GetObject", "Allow", "my-bucket", "é", "中", "a\nb", "key=value", "http://example.com/x?y=1", "a,b,c",
         "${AWS::Region}", "#", "-", "+", ".", "e", "E5", "0x", "T", "Z"]
NUMBERS = [0, 1, -1, 2, 7, 42, 65535, 2 ** 31, 2 ** 63 - 1, 2 ** 63, -(2 ** 63) - 1, 2 ** 70, 1.5, 0.5, -0.0, 5.0, 1e19, 1e300, 1e-7, 123456789.125,
           -2.5, 1e16, 3.0, 0.1]
RECOGNISED = [
    {"Key": "k", "Value": "v"}, {"Key": "k", "Value": 1}, {"Effect": "Allow"}, {"Effect": "allow", "Action": "s3:*", "Resource": "*"},
    {"IpProtocol": "tcp", "CidrIp": "10.0.0.0/24", "FromPort": 22, "ToPort": "22"}, {"IpProtocol": -1},
    {"StringEquals": {"aws:username": "bob"}}, {"Bool": {"aws:SecureTransport": "true"}},
    {"Statement": []}, {"Statement": {"Effect": "Deny"}}, {"Version": "2012-10-17", "Statement": [{"Sid": "A", "Effect": "Allow"}], "Extra": 1},
    {"PolicyName": "n", "PolicyDocument": {"Statement": []}},
]
NEAR_RECOGNISED = [
    {"Key": "k", "Value": "v", "c": 1}, {"Key": "k"}, {"Effect": "Maybe"}, {"IpProtocol": "tcp", "Cidr": "x"}, {"StringEquals": "x"},
    {"Statement": [{"Effect": "x"}]}, {"PolicyName": "n", "PolicyDocument": {"Statement": []}, "x": 1}, {"PolicyName": "n"},
]
MODEL_SHAPED = [
    {"Effect": "Allow", "Sid": 7}, {"Effect": "Deny", "Resource": [1, 2.5]}, {"Effect": "Allow", "Action": ["s3:*"], "Resource": "*", "Sid": True},
    {"PolicyName": 12, "PolicyDocument": {"Statement": []}}, {"IpProtocol": 6, "Description": 1.5}, {"IpProtocol": "tcp", "FromPort": "22", "ToPort": 22.0},
    {"Key": 5, "Value": "v"}, {"Key": "k", "Value": True}, {"Key": "k", "Value": 2.5}, {"Key": "k", "Value": None},
    {"Statement": [{"Effect": "Allow", "Sid": "s", "Action": 5}]}, {"Version": 20121017, "Statement": []},
    {"StringEquals": {"aws:username": 5}}, {"NumericEquals": {"k": "7"}}, {"Bool": {"k": 1}}, {"DateLessThan": {"k": 1577836800}},
    {"AWS": 123456789012}, {"Service": ["ec2.amazonaws.com", 1]},
]
FUNCTIONS = [{"Ref": "x"}, {"Fn::Sub": "a-${b}"}, {"Fn::GetAtt": ["a", "b"]}, {"Fn::Join": ["", ["a", {"Ref": "b"}]]}, {"Condition": "c"}]
NEAR_FUNCTIONS = [{"Fn::Foo": "x"}, {"Ref": "x", "b": 1}, {"ref": "x"}, {"Fn::Transform": {"Name": "n"}}]
KEYS = ["A", "b", "Name", "Enabled", "Count", "Cidr", "When", "Items", "Config", "X9", "snake_case", "kebab-case", "With Space", "Fn::Odd", "é"]

LOOKALIKE = (BOOL_LIKE, INT_LIKE, FLOAT_LIKE, DATE_OK, DATE_BAD, TIME_OK, TIME_BAD, ADDR_OK, ADDR_BAD, JSON_TEXT)
_LOOK = None


def lookalike_set():
    global _LOOK
    if _LOOK is None:
        _LOOK = set()
        for fam in LOOKALIKE + (MIDNIGHT,):
            _LOOK.update(fam)
    return _LOOK


def leaf(rng, in_list=False):
    r = rng.random()
    if r < 0.18:
        return rng.choice(PLAIN)
    if r < 0.30:
        return rng.choice(NUMBERS)
    if r < 0.34:
        return rng.choice([True, False, None])
    if r < 0.42:
        return rng.choice(BOOL_LIKE)
    if r < 0.52:
        return rng.choice(INT_LIKE)
    if r < 0.59:
        return rng.choice(FLOAT_LIKE)
    if r < 0.67:
        return rng.choice(DATE_OK if rng.random() < 0.5 else DATE_BAD)
    if r < 0.76:
        if not in_list and rng.random() < 0.25:
            return rng.choice(MIDNIGHT)
        return rng.choice(TIME_OK if rng.random() < 0.55 else TIME_BAD)
    if r < 0.81:
        return rng.choice(EPOCH)
    if r < 0.90:
        return rng.choice(ADDR_OK if rng.random() < 0.55 else ADDR_BAD)
    return rng.choice(JSON_TEXT)


def homogeneous(rng):
    fam = rng.choice([BOOL_LIKE[:6] + [True, False], ["1", "2", "007", 3, 4.0, "+5"], DATE_OK, TIME_OK, ADDR_OK[:12], ADDR_OK[12:], PLAIN,
                      [1, 2, 3], [1.5, 2.5, 0.5], ["1.5", "2.5"], [True, False], EPOCH[:9], ['"a"', "[1]", "x"], FUNCTIONS + ["true"],
                      FUNCTIONS + ["x"], FUNCTIONS + [1], [1, True, 2], [1, "10.0.0.1"], [True, "10.0.0.1"], [1.5, "2020-01-01T00:00:01"],
                      ["0", "2020-01-01"], ["1577836800", "2020-01-01T00:00:01"], [1, 2.5], [None, 1], ["5.", "2020-01-01T00:00:01"]])
    n = rng.choice([0, 1, 1, 2, 2, 3, 4])
    return [rng.choice(fam) for _ in range(n)]


def value(rng, depth=0, in_list=False):
    r = rng.random()
    if depth >= 4 or r < 0.55:
        return leaf(rng, in_list)
    if r < 0.68:
        return fix_list(homogeneous(rng))
    if r < 0.78:
        return fix_list([value(rng, depth + 1, True) for _ in range(rng.choice([0, 1, 2, 2, 3]))])
    if r < 0.90:
        return {k: value(rng, depth + 1, False) for k in rng.sample(KEYS, rng.choice([0, 1, 1, 2, 2, 3]))}
    if r < 0.94:
        return rng.choice(RECOGNISED + NEAR_RECOGNISED)
    if r < 0.97:
        return rng.choice(FUNCTIONS + NEAR_FUNCTIONS)
    return json.dumps(value(rng, depth + 2, True))   # JSON text of a generated value


def _is(name, x):
    return isinstance(x, str) and go._try(name, x) is not None


def fix_list(l):
    """keep out lists in which pycfmodel's re-cast turns a midnight datetime into a date (see ASSUMPTIONS)"""
    import os
    if not os.environ.get("VERIF_NARROW_ONLY"):
        return l
    strs = [x for x in l if isinstance(x, str)]
    if strs and all(isinstance(x, str) or go_fn(x) for x in l):
        dts = [x for x in strs if _is("datetime", x)]
        ds = [x for x in strs if _is("date", x)]
        if len(dts) == len(strs) and 0 < len(ds) < len(strs):
            return [x for x in l if not _is("date", x)]
    return l


def go_fn(x):
    return isinstance(x, dict) and len(x) == 1 and next(iter(x)) in _funcs()


def wide(x, depth=0):
    """does the input hold (possibly inside JSON text) an address range wider than 256 addresses?  (A guard from the time before
    defects F11/F12 were repaired; since then wide ranges are part of the domain and this answers False unless VERIF_NARROW_ONLY is set.)"""
    import os
    if not os.environ.get("VERIF_NARROW_ONLY"):
        return False
    if isinstance(x, str):
        for cls in (IPv4Network, IPv6Network):
            try:
                if cls(x, strict=False).num_addresses > 256:
                    return True
            except Exception:
                pass
        if depth < 6 and x[:1] in '[{" \t\n':
            try:
                return wide(json.loads(x), depth + 1)
            except Exception:
                return False
        return False
    if isinstance(x, bool) or x is None or isinstance(x, (int, float)):
        return False
    if isinstance(x, list):
        return any(wide(v, depth) for v in x)
    if isinstance(x, dict):
        return any(wide(v, depth) for v in x.values())
    return True


def jsonlike(x):
    if x is None or isinstance(x, (bool, int, float, str)):
        return True
    if isinstance(x, list):
        return all(jsonlike(v) for v in x)
    if isinstance(x, dict):
        return all(isinstance(k, str) and k.isprintable() and "\0" not in k for k in x) and all(jsonlike(v) for v in x.values())
    return False


DATEISH = re.compile(r"^\d{4}-\d\d-\d\d")


def leaves(x):
    if isinstance(x, list):
        for v in x:
            yield from leaves(v)
    elif isinstance(x, dict):
        for v in x.values():
            yield from leaves(v)
    else:
        yield x


def construct_tags(x):
    t = set()
    for v in leaves(x):
        if isinstance(v, bool):
            t.add("json-bool")
        elif isinstance(v, int):
            t.add("int")
        elif isinstance(v, float):
            t.add("float")
        elif v is None:
            t.add("null")
        elif isinstance(v, str):
            if v in lookalike_set():
                for name, fam in (("bool-like", BOOL_LIKE), ("int-like", INT_LIKE), ("float-like", FLOAT_LIKE), ("date-like", DATE_OK + DATE_BAD),
                                  ("time-like", TIME_OK + TIME_BAD + MIDNIGHT), ("addr-like", ADDR_OK + ADDR_BAD), ("json-text", JSON_TEXT)):
                    if v in fam:
                        t.add(name)
            else:
                t.add("plain-text")
    if isinstance(x, list):
        t.add("list")
    if isinstance(x, dict):
        t.add("empty-object" if not x else "object")
    if x == [] or (isinstance(x, (list, dict)) and any(v in ([], {}) for v in (x if isinstance(x, list) else x.values()))):
        t.add("empty-container")
    return t


class CastSurface(core.Surface):
    theorem = "C18_preserves / C18_not_bool / C18_other_string_id / C18_shape"
    idx = 0
    name = "parse(t).Resources[r].Properties.P"

    def __init__(self):
        self._last = (None, set())

    def declined(self, x):
        return not isinstance(x, dict) or set(x) != {"v"} or not jsonlike(x["v"]) or wide(x["v"])

    def observe(self, x):
        from pycfmodel import parse
        res = parse({"Resources": {"r": {"Type": "Custom::Unmodelled", "Properties": {"P": x["v"]}}}}).Resources["r"]
        return go.present(res.Properties.P)

    def impl(self, x):
        if self.declined(x):
            return ("EXC", "EUndefined", "")
        return core.impl_call(self.observe, x, limit=10.0)

    def model(self, rn, x):
        if self.declined(x):
            return ("EXC", "EUndefined", "")
        g = go.annotate(x["v"])
        res = rn.call(1805, [0, _funcs(), g], sample=len(json.dumps(x, default=str)) < 400)
        out, (confirmed, ok, strict, liberal) = res[self.idx], res[2:]
        if confirmed and not ok:
            raise core.ModelError(f"theorem C18_preserves contradicted by the runner on {x!r}")
        extra = set()
        if not confirmed:
            extra.add("ann-unconfirmed")
        if strict:
            extra.add("conv-strict")
        if liberal:
            extra.add("conv-liberal")
        if not strict and not liberal:
            extra.add("conv-none")
        self._last = (json.dumps(x, sort_keys=True, default=str), extra)
        return ("OK", out)

    def tags(self, x):
        t = construct_tags(x["v"]) if isinstance(x, dict) and "v" in x else set()
        if self._last[0] == json.dumps(x, sort_keys=True, default=str):
            t |= self._last[1]
        return t

    def nontrivial(self, x, i, m):
        return any(isinstance(v, str) and v in lookalike_set() or isinstance(v, (float, bool)) for v in leaves(x["v"]))


class DumpSurface(CastSurface):
    idx = 1
    name = "parse(t).Resources[r].model_dump()[Properties][P]"

    def observe(self, x):
        from pycfmodel import parse
        res = parse({"Resources": {"r": {"Type": "Custom::Unmodelled", "Properties": {"P": x["v"]}}}}).Resources["r"]
        return go.present_dump(res.Properties.P, res.model_dump()["Properties"]["P"])


def _is_numeric_text(a):
    try:
        float(a)
        return True
    except (TypeError, ValueError):
        return False


def same_thing(a, b, path=()):
    """the property, read directly on the implementation's answer: `b` (a member of model_dump()) denotes the same thing as the JSON
    value `a` it was made from.  None when it does, else (kind, path, a, b).  Independent of the casting model AND of the recogniser
    oracle: it also looks INSIDE objects the library recognises as property models (Tag, Statement, ...), where the model of
    stage 1 only compares with the library's own union (seeded change C18-r4m2: every property model coerced numbers to text)."""
    import base64
    import datetime
    import ipaddress

    from pydantic import TypeAdapter

    def bad(kind):
        return (kind, list(path), wire.jsonable(a), wire.jsonable(go.plain(b)) if not isinstance(b, (dict, list)) else "...")

    tag_shaped = len(path) >= 1 and path[-1] in ("Key", "Value") and path[-1] != "?"
    if a is None:
        return None if b is None else bad("null-changed")
    if isinstance(a, bool):
        if isinstance(b, bool) and a == b:
            return None
        return bad("tag-member-became-text" if isinstance(b, str) and b == str(a) and tag_shaped else "boolean-changed")
    if isinstance(a, (int, float)):
        if type(a) is type(b) and a == b:
            return None
        if isinstance(a, float) and isinstance(b, int) and not isinstance(b, bool) and a == b:
            return None          # an integral number is the same number as an integer (cast_ok's reading, DESIGN C18)
        if isinstance(b, datetime.datetime) and any(isinstance(k, str) and "Date" in k for k in path[-2:-1]):
            # under a Date* condition operator a number IS a timestamp (epoch seconds, IAM's own reading of that position)
            try:
                if datetime.datetime.fromtimestamp(a, datetime.timezone.utc) == b:
                    return None
            except Exception:
                pass
        if isinstance(b, str) and b in (str(a), repr(a)):
            return bad("tag-member-became-text" if tag_shaped else "number-became-text")
        return bad("number-changed")
    if isinstance(a, str):
        if isinstance(b, str):
            if a == b or (path and path[-1] == "Effect" and b == a.capitalize()):
                return None
        elif isinstance(b, bool):
            if a.lower() in ("true", "false") and b == (a.lower() == "true"):
                return None
        elif isinstance(b, int):
            try:
                if TypeAdapter(int).validate_python(a) == b:
                    return None
            except Exception:
                pass
        elif isinstance(b, datetime.datetime):
            try:
                if not _is_numeric_text(a) and TypeAdapter(datetime.datetime).validate_python(a) == b:
                    return None
            except Exception:
                pass
        elif isinstance(b, datetime.date):
            try:
                if not _is_numeric_text(a) and TypeAdapter(datetime.date).validate_python(a) == b:
                    return None
            except Exception:
                pass
        elif isinstance(b, (ipaddress.IPv4Network, ipaddress.IPv6Network)):
            try:
                if not _is_numeric_text(a) and ipaddress.ip_network(a, strict=False) == b:
                    return None
            except Exception:
                pass
        elif isinstance(b, bytes):
            try:
                if base64.b64decode(a) == b:
                    return None
            except Exception:
                pass
        try:
            decoded = json.loads(a)
        except Exception:
            return bad("text-changed")
        if isinstance(decoded, str):
            return None if decoded == b else same_thing(decoded, b, path + ("<json>",))
        if isinstance(decoded, float) and isinstance(b, int) and not isinstance(b, bool) and decoded == b:
            return None          # "1e3" -> 1000: pydantic's liberal integer literal (counted conv-liberal by the cast surfaces)
        return same_thing(decoded, b, path + ("<json>",))
    if isinstance(a, list):
        if not isinstance(b, list) or len(a) != len(b):
            return bad("array-shape")
        for i, (x, y) in enumerate(zip(a, b)):
            r = same_thing(x, y, path + (i,))
            if r:
                return r
        return None
    if isinstance(a, dict):
        if not isinstance(b, dict):
            return bad("object-shape")
        used = set()
        for k, v in a.items():
            kk = k if k in b else k.replace(":", "") if k.replace(":", "") in b else None
            if kk is None:
                return ("member-lost", list(path) + [k], wire.jsonable(v), None)
            used.add(kk)
            sub = path + (k,) if set(a) == {"Key", "Value"} or k not in ("Key", "Value") else path + ("?",)
            r = same_thing(v, b[kk], sub)
            if r:
                return r
        for k, v in b.items():
            if k not in used and v is not None:
                return ("member-added", list(path) + [k], None, wire.jsonable(go.plain(v)) if not isinstance(v, (dict, list)) else "...")
        return None
    return bad("unknown-input")


class PreserveSurface(CastSurface):
    """impl-only: model_dump() of the cast property against the JSON value it came from, by the words of the property"""
    name = "same_thing(v, parse(t).Resources[r].model_dump()[Properties][P])"
    theorem = "C18_preserves / C18_shape (the property read on the implementation's own answer, recognised property models included)"

    def observe(self, x):
        from pycfmodel import parse
        res = parse({"Resources": {"r": {"Type": "Custom::Unmodelled", "Properties": {"P": x["v"]}}}}).Resources["r"]
        return res.model_dump()["Properties"]["P"]

    def impl(self, x):
        r = super().impl(x)
        if r[0] == "OK":
            d = same_thing(x["v"], r[1])          # outside impl_call: an error in the comparison itself must surface, not be forgiven
            r = ("OK", "same" if d is None else {"differs": d[0], "at": d[1], "from": d[2], "to": d[3]})
        self._last = (json.dumps(x, sort_keys=True, default=str), r)
        return r

    def model(self, rn, x):
        if self.declined(x):
            return ("EXC", "EUndefined", "")
        return ("OK", "same")

    def agree(self, x, i, m):
        if i[0] == "EXC":
            return i[1] == "EValidation"      # parse refusing the template is C19's subject; anything else is not forgiven here
        return i[1] == "same"

    def tags(self, x):
        if self._last[0] == json.dumps(x, sort_keys=True, default=str) and self._last[1][0] == "OK" and isinstance(self._last[1][1], dict):
            kind = self._last[1][1]["differs"]
            if kind == "tag-member-became-text":
                return {"tag-shaped-object", "number-or-boolean-member"}      # known finding F28: exactly this construct
            return {"preserve:" + kind}
        return {"preserve"}

    def nontrivial(self, x, i, m):
        return isinstance(x.get("v"), (dict, list)) and len(json.dumps(x["v"], default=str)) > 20


CAST, DUMP, PRESERVE = CastSurface(), DumpSurface(), PreserveSurface()
SURFACES = {s.name: s for s in (CAST, DUMP, PRESERVE)}


def corpus():
    p = core.VERIF / "corpus" / "C18.json"
    if p.exists():
        for c in json.loads(p.read_text()):
            yield SURFACES[c["surface"]], c["input"]


def cases(rng, tier, shard, nshards):
    if shard == 0:
        yield from corpus()
        # every member of every family once, as a scalar
        for fam in LOOKALIKE + (MIDNIGHT, PLAIN, NUMBERS, EPOCH, RECOGNISED, NEAR_RECOGNISED, FUNCTIONS, NEAR_FUNCTIONS):
            for v in fam:
                yield CAST, {"v": v}
    n = {"quick": 4000, "thorough": 60000}[tier]
    # objects shaped like the property models, with numbers / booleans where the models expect text, and the other way round
    for fam in (RECOGNISED, NEAR_RECOGNISED, MODEL_SHAPED):
        for j, v in enumerate(fam):
            if j % nshards == shard:
                yield PRESERVE, {"v": copy.deepcopy(v)}
                yield PRESERVE, {"v": {"Nested": [copy.deepcopy(v), {"Other": copy.deepcopy(v)}]}}
    for k in range(n):
        v = value(rng)
        yield (CAST if k % 4 else DUMP), {"v": v}
        if k % 3 == 0:
            yield PRESERVE, {"v": v}
