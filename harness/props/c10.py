"""C10 -- expand_actions changes only Action/NotAction text and is idempotent on Action elements."""
import copy
import datetime
import ipaddress
import json

import core
import wire
from props import c09

ID = "C10"
TABLES = ["catalogue"]
EXTRA_TARGETS = ["theories/Actions/CatalogueChecks.vo"]
GEN_OBLIGATIONS = ["Catalogue_ok", "Shipped_idempotent_action", "Shipped_idempotent_tree"]
BUDGET = {"quick": (4, 60), "thorough": (16, 420)}
RULE = ("templates without intrinsic functions (resolved), 1-4 resources drawn from: IAM policy / managed policy / role / "
        "S3 bucket policy / SQS queue policy (statements with Action, NotAction, principals, resource ARNs, conditions), "
        "generic resources with members NAMED Action that are not IAM action text (AWS::WAFv2::WebACL Rules[].Action objects, "
        "AWS::Lambda::Permission Action strings, ELBv2 listener rule Actions lists of objects), resource- and template-level "
        "Metadata holding Action / NotAction keys with string, list, object, number, boolean and mixed-list values, plus "
        "Parameters / Outputs / Mappings / Conditions sections; a second stream feeds plain JSON trees to "
        "action_expander.expand_actions; a third compares one application with two on templates whose expansions are small. "
        "non-trivial = the template holds at least one Action/NotAction member (text or not); distinct by hash of (surface, input).")
ASSUMPTIONS = [
    "resolved templates: no intrinsic function objects (Ref, Fn::*) anywhere (a small stream keeps function-valued Action members)",
    "generic resources hold no CIDR text wider than /32 and no date-like text: re-validating such typed atoms is the subject of C15/C18 "
    "(a known separate defect makes the implementation enumerate every address of a wide network)",
    "once-vs-twice is exercised only where the expansion has <= 200 entries and there is no NotAction text "
    "(the implementation re-expands quadratically; the theorems C10_idempotent_* have no such bound)",
]
MODELLED = ("pydantic re-validation of the expanded dump (CFModel(**dump)) is not modelled: the model is the walk over the dump; "
            "that re-validation gives back the same classes and values is what the comparison of dumps and class names checks")

UNDEF = ("EXC", "EUndefined", "")


# ---------------------------------------------------------------------------------------------
# dump -> wire value, class names node by node

def to_wire(v):
    if v is None or isinstance(v, (bool, int, str)):
        return v
    if isinstance(v, float):
        return wire.Typed("float", repr(v))
    if isinstance(v, datetime.datetime):
        return wire.Typed("datetime", v.isoformat())
    if isinstance(v, datetime.date):
        return wire.Typed("date", v.isoformat())
    if isinstance(v, ipaddress.IPv4Network):
        return wire.Typed("net4", str(v))
    if isinstance(v, ipaddress.IPv6Network):
        return wire.Typed("net6", str(v))
    if isinstance(v, (bytes, bytearray)):
        return bytes(v)
    if isinstance(v, (list, tuple)):
        return [to_wire(x) for x in v]
    if isinstance(v, dict):
        return {str(k): to_wire(x) for k, x in v.items()}
    raise TypeError(f"cannot convert {type(v)} to a wire value")


def classes(node, path="", out=None):
    """{path: class name} for every pydantic model node of the tree."""
    from pydantic import BaseModel
    if out is None:
        out = {}
    if isinstance(node, BaseModel):
        out[path or "/"] = type(node).__name__
        for k in type(node).model_fields:
            classes(getattr(node, k, None), f"{path}/{k}", out)
        for k, v in (node.__pydantic_extra__ or {}).items():
            classes(v, f"{path}/{k}", out)
    elif isinstance(node, dict):
        for k, v in node.items():
            classes(v, f"{path}/{k}", out)
    elif isinstance(node, (list, tuple)):
        for i, v in enumerate(node):
            classes(v, f"{path}/{i}", out)
    return out


def parse_model(x):
    import pycfmodel
    m = pycfmodel.parse(copy.deepcopy(x["template"]))
    if x.get("resolve"):
        m = m.resolve()
    return m


# ---------------------------------------------------------------------------------------------
# tags

def action_members(t, under=False, out=None):
    """kinds of values found under keys named Action / NotAction, anywhere"""
    if out is None:
        out = set()
    if isinstance(t, dict):
        for k, v in t.items():
            if k in ("Action", "NotAction"):
                if v is None:
                    kind = "null"
                elif isinstance(v, str):
                    kind = "text"
                elif isinstance(v, list) and all(isinstance(e, str) for e in v):
                    kind = "text-list"
                elif isinstance(v, dict):
                    kind = "object"
                elif isinstance(v, list):
                    kind = "mixed-list"
                elif isinstance(v, bool):
                    kind = "bool"
                else:
                    kind = "number"
                out.add(k.lower() + "-" + kind)
            action_members(v, under, out)
    elif isinstance(t, list):
        for v in t:
            action_members(v, under, out)
    return out


def template_tags(t):
    tags = set(action_members(t))
    res = t.get("Resources") if isinstance(t, dict) else None
    if isinstance(res, dict):
        for r in res.values():
            if isinstance(r, dict):
                ty = r.get("Type")
                if isinstance(ty, str):
                    tags.add("type:" + ty)
                if isinstance(r.get("Metadata"), dict) and action_members(r["Metadata"]):
                    tags.add("resource-metadata-action")
    if isinstance(t, dict) and isinstance(t.get("Metadata"), dict) and action_members(t["Metadata"]):
        tags.add("template-metadata-action")
    return tags


# ---------------------------------------------------------------------------------------------
# surfaces

class ExpandModelSurface(core.Surface):
    name = "parse(template).expand_actions(): model_dump() and classes"
    theorem = "C10_frame / C10_object_action_kept / C10_other_sections / C10_class_kept"
    frozen = frozenset({"resolve"})

    def impl(self, x):
        def run():
            e = parse_model(x).expand_actions()
            return {"dump": to_wire(e.model_dump()), "classes": classes(e)}
        return core.impl_call(run)

    def model(self, rn, x):
        try:
            m = parse_model(x)
            d = to_wire(m.model_dump())
            cl = classes(m)
        except Exception:   # not a template pycfmodel accepts: outside the property
            return UNDEF
        return ("OK", {"dump": rn.call(1001, d, sample=big_free(x["template"])), "classes": cl})

    def tags(self, x):
        return template_tags(x["template"]) | ({"resolved"} if x.get("resolve") else set())

    def nontrivial(self, x, i, m):
        return bool(action_members(x["template"]))


class EditedModelSurface(core.Surface):
    """history: expand a model, EDIT THE SAME MODEL OBJECT in place (pydantic models are mutable: another Description, one resource
    replaced, one added), expand it again -- the second answer must describe the edited model, not a remembered one"""
    name = "m.expand_actions(); edit m in place; m.expand_actions()"
    theorem = "C10_frame / C10_other_sections (expand_model is a function of the model's current content)"
    frozen = frozenset({"resolve"})

    @staticmethod
    def edited(x):
        m = parse_model(x)
        m.expand_actions()
        other = parse_model({"template": x["template2"], "resolve": x.get("resolve")})
        m.Description = "edited after the first expansion"
        for k, (rid, res) in enumerate(other.Resources.items()):
            m.Resources["Edited" + str(k)] = res
        if x.get("drop") and len(m.Resources) > 1:
            m.Resources.pop(next(iter(m.Resources)))
        return m

    def impl(self, x):
        def run():
            m = self.edited(x)
            e = m.expand_actions()
            return {"dump": to_wire(e.model_dump()), "classes": classes(e)}
        return core.impl_call(run)

    def model(self, rn, x):
        try:
            m = self.edited(x)
            d = to_wire(m.model_dump())
            cl = classes(m)
        except Exception:
            return UNDEF
        return ("OK", {"dump": rn.call(1001, d, sample=False), "classes": cl})

    def tags(self, x):
        return template_tags(x["template"]) | template_tags(x["template2"]) | {"edited-in-place"}

    def nontrivial(self, x, i, m):
        return bool(action_members(x["template"])) or bool(action_members(x["template2"]))


def scramble(obj, depth=0):
    """edit, in place, every mutable container reachable from a model (dict: one more key; list: one more member)"""
    from pydantic import BaseModel
    if depth > 40:
        return
    if isinstance(obj, BaseModel):
        for name in list(type(obj).model_fields) + list((obj.__pydantic_extra__ or {})):
            scramble(getattr(obj, name, None), depth + 1)
    elif isinstance(obj, dict):
        for v in list(obj.values()):
            scramble(v, depth + 1)
        obj["__edited_by_the_caller__"] = "x"
    elif isinstance(obj, list):
        for v in list(obj):
            scramble(v, depth + 1)
        obj.append("__edited_by_the_caller__")


class ResultEditedSurface(core.Surface):
    """history: expand a model, let the caller EDIT THE RESULT it was handed (every dict / list reachable from it, e.g. Metadata,
    UpdatePolicy, generic properties), then expand the untouched original again and an equal template parsed afresh: both must
    still be the expansion of the original (added after seeded change C10-r3m1: a content-keyed cache handing out shallow copies)"""
    name = "e = m.expand_actions(); edit e in place; m.expand_actions(); parse(t).expand_actions()"
    theorem = "C10_frame / C10_other_sections (the result is a function of the receiver's content only, and a new object)"
    frozen = frozenset({"resolve"})

    def impl(self, x):
        def run():
            m = parse_model(x)
            e1 = m.expand_actions()
            scramble(e1)
            e2 = m.expand_actions()
            e3 = parse_model(x).expand_actions()
            return {"again": to_wire(e2.model_dump()), "fresh": to_wire(e3.model_dump()), "classes": classes(e2)}
        return core.impl_call(run)

    def model(self, rn, x):
        try:
            m = parse_model(x)
            d = to_wire(m.model_dump())
            cl = classes(m)
        except Exception:
            return UNDEF
        out = rn.call(1001, d, sample=False)
        return ("OK", {"again": out, "fresh": out, "classes": cl})

    def tags(self, x):
        return template_tags(x["template"]) | {"result-edited"}

    def nontrivial(self, x, i, m):
        return True


class TwiceSurface(core.Surface):
    name = "expand_actions() twice vs once"
    theorem = "C10_idempotent_action / C10_idempotent_tree / C10_idempotent_no_notaction"
    frozen = frozenset({"resolve"})

    def impl(self, x):
        def run():
            once = parse_model(x).expand_actions()
            twice = once.expand_actions()
            return {"twice": to_wire(twice.model_dump()), "same_as_once": twice.model_dump() == once.model_dump()}
        return core.impl_call(run, limit=60.0)

    def model(self, rn, x):
        if any(k.startswith("notaction-text") for k in action_members(x["template"])):
            return UNDEF        # quadratic re-expansion of an 18k-entry complement: not exercised (see ASSUMPTIONS)
        try:
            d = to_wire(parse_model(x).model_dump())
        except Exception:
            return UNDEF
        once = rn.call(1001, d)
        twice = rn.call(1002, d)
        return ("OK", {"twice": twice, "same_as_once": core.canon(once) == core.canon(twice)})

    def tags(self, x):
        return template_tags(x["template"]) | {"twice"}

    def nontrivial(self, x, i, m):
        return bool(action_members(x["template"]))


class WalkSurface(core.Surface):
    name = "action_expander.expand_actions(obj)"
    theorem = "C10_frame / C10_object_action_kept / C10_no_action_text_unchanged"

    def impl(self, x):
        from pycfmodel.action_expander import expand_actions
        return core.impl_call(lambda: expand_actions(copy.deepcopy(x["obj"])))

    def model(self, rn, x):
        if not plain_json(x.get("obj")):
            return UNDEF
        return ("OK", rn.call(1003, x["obj"], sample=big_free(x["obj"])))

    def tags(self, x):
        return action_members(x["obj"]) | {"walk"}

    def nontrivial(self, x, i, m):
        return bool(action_members(x["obj"]))


def plain_json(v):
    if v is None or isinstance(v, (bool, int, str)):
        return True
    if isinstance(v, list):
        return all(plain_json(e) for e in v)
    if isinstance(v, dict):
        return all(isinstance(k, str) and plain_json(e) for k, e in v.items())
    return False


def big_free(t):
    """no NotAction text and no bare '*' patterns: the result is small enough to be re-evaluated inside Coq"""
    ks = action_members(t)
    if any(k.startswith("notaction-text") for k in ks):
        return False
    return '"*' not in json.dumps(t) and ':*"' not in json.dumps(t)


MODEL, TWICE, WALK, EDITED = ExpandModelSurface(), TwiceSurface(), WalkSurface(), EditedModelSurface()
RESULT_EDITED = ResultEditedSurface()
SURFACES = {s.name: s for s in (MODEL, TWICE, WALK, EDITED, RESULT_EDITED)}


def prepare(rn):
    c09.prepare(rn)


def crosscheck_state():
    return c09.crosscheck_state()


# ---------------------------------------------------------------------------------------------
# generators

ARNS = ["*", "arn:aws:s3:::bucket/*", "arn:aws:s3:::bucket", "arn:aws:iam::123456789012:role/r", "arn:aws:sqs:eu-west-1:123456789012:q"]
PRINCIPALS = ["*", "arn:aws:iam::123456789012:root", {"AWS": "arn:aws:iam::123456789012:root"},
              {"AWS": ["arn:aws:iam::123456789012:root", "arn:aws:iam::210987654321:user/u"]}, {"Service": "lambda.amazonaws.com"},
              {"Service": ["ec2.amazonaws.com", "ecs.amazonaws.com"], "AWS": "*"}, {"Federated": "cognito-identity.amazonaws.com"}]
CONDITIONS = [{"StringEquals": {"aws:PrincipalOrgID": "o-123"}}, {"Bool": {"aws:SecureTransport": "true"}},
              {"IpAddress": {"aws:SourceIp": "192.0.2.7/32"}}, {"StringLike": {"s3:prefix": ["home/*", "x?"]}},
              {"ArnLike": {"aws:SourceArn": "arn:aws:s3:::b*"}, "StringEquals": {"aws:SourceAccount": "123456789012"}},
              {"Null": {"aws:TokenIssueTime": "false"}}, {"NumericLessThan": {"s3:max-keys": "10"}},
              # every typed atom a condition block can hold travels through model_dump() -> the walk -> re-validation
              # (bytes, datetimes, IPv6 networks, integers; seeded change C10-r4m2 rebuilt bytes as a list of ints)
              {"BinaryEquals": {"kms:EncryptionContext:k": "QmluYXJ5VmFsdWVJbkJhc2U2NA=="}},
              {"ForAnyValue:BinaryEquals": {"k": "AAEC/w=="}, "DateLessThan": {"aws:CurrentTime": "2030-01-01T00:00:00Z"}},
              {"DateGreaterThanEquals": {"aws:TokenIssueTime": "2019-07-16T19:15:00+02:00"}, "NumericEquals": {"s3:max-keys": 7}},
              {"NotIpAddress": {"aws:SourceIp": ["2001:db8::/32", "10.0.0.0/8"]}}, {"BoolIfExists": {"aws:MultiFactorAuthPresent": True}}]


def small_pattern(rng, cat):
    """a pattern whose expansion is small (well below 200 entries)"""
    a = rng.choice(cat)
    svc, name = a.split(":", 1)
    r = rng.random()
    if r < 0.35:
        return a
    if r < 0.7:
        return svc + ":" + name[: rng.randrange(min(4, len(name)), len(name) + 1)] + "*"
    if r < 0.8:
        i = rng.randrange(len(name))
        return svc + ":" + name[:i] + "?" + name[i + 1:]
    if r < 0.9:
        return rng.choice([a.lower(), a.upper(), a.swapcase()])
    return rng.choice(["nosuch:Thing", "nosuch:*", svc + ":" + name + "Zz"])


def action_text(rng, cat, small):
    gen = (lambda: small_pattern(rng, cat)) if small else (lambda: c09.gen_pattern(rng, cat, small=rng.random() < 0.9))
    if rng.random() < 0.4:
        return gen()
    return [gen() for _ in range(rng.choice([0, 1, 1, 2, 2, 3, 4]))]


def gen_stmt(rng, cat, small, allow_not, principal):
    st = {"Effect": rng.choice(["Allow", "Allow", "Deny", "allow"])}
    if rng.random() < 0.2:
        st["Sid"] = "Sid" + str(rng.randrange(100))
    if allow_not and rng.random() < 0.25:
        st["NotAction"] = action_text(rng, cat, small)
    else:
        st["Action"] = action_text(rng, cat, small)
    st[rng.choice(["Resource", "Resource", "NotResource"])] = rng.choice(ARNS + [[ARNS[1], ARNS[2]]])
    if principal:
        st[rng.choice(["Principal", "Principal", "NotPrincipal"])] = copy.deepcopy(rng.choice(PRINCIPALS))
    if rng.random() < 0.3:
        st["Condition"] = copy.deepcopy(rng.choice(CONDITIONS))
    return st


def gen_doc(rng, cat, small, allow_not, principal=False):
    n = rng.choice([1, 1, 2, 3])
    k = rng.randrange(n)        # at most one NotAction statement per document (each complement is ~18k entries)
    sts = [gen_stmt(rng, cat, small, allow_not and i == k, principal) for i in range(n)]
    doc = {"Statement": sts[0] if n == 1 and rng.random() < 0.3 else sts}
    if rng.random() < 0.7:
        doc["Version"] = "2012-10-17"
    return doc


def odd_action_value(rng, cat):
    """values of a member named Action that are NOT action text"""
    return copy.deepcopy(rng.choice([
        {"Block": {}}, {"Allow": {}}, {"Count": {}}, {"Block": {"CustomResponse": {"ResponseCode": 403}}},
        {"Type": "forward", "TargetGroupArn": "arn:aws:elasticloadbalancing:eu-west-1:123456789012:targetgroup/t/1"},
        5, 0, True, False, {"Action": "s3:GetObject"}, {"NotAction": {"x": 1}}, [{"Type": "forward"}], ["s3:GetObject", 7],
        [["s3:GetObject"]], {}, [{"Action": ["s3:Get*", {"k": "v"}]}],
    ]))


def gen_metadata(rng, cat, small, allow_not):
    md = {}
    for _ in range(rng.choice([1, 1, 2, 3])):
        r = rng.random()
        key = rng.choice(["Action", "Action", "NotAction"] if allow_not else ["Action"])
        if r < 0.35:
            md[key] = action_text(rng, cat, small)
        elif r < 0.75:
            md[key] = odd_action_value(rng, cat)
        elif r < 0.9:
            md["Info" + str(rng.randrange(3))] = {key: rng.choice([action_text(rng, cat, small), odd_action_value(rng, cat)]), "Other": "text"}
        else:
            md["List"] = [{key: odd_action_value(rng, cat)}, "s3:Get*", 3]
    return md


def gen_resource(rng, cat, small, allow_not):
    r = rng.random()
    if r < 0.16:
        return {"Type": "AWS::IAM::Policy", "Properties": {"PolicyName": "p", "PolicyDocument": gen_doc(rng, cat, small, allow_not), "Roles": ["r"]}}
    if r < 0.26:
        return {"Type": "AWS::IAM::ManagedPolicy", "Properties": {"PolicyDocument": gen_doc(rng, cat, small, allow_not), "Description": "d"}}
    if r < 0.38:
        props = {"AssumeRolePolicyDocument": {"Version": "2012-10-17", "Statement": [
            {"Effect": "Allow", "Principal": copy.deepcopy(rng.choice(PRINCIPALS[2:])), "Action": rng.choice(["sts:AssumeRole", ["sts:AssumeRole"], "sts:Assume*"])}]}}
        if rng.random() < 0.7:
            props["Policies"] = [{"PolicyName": "inline" + str(i), "PolicyDocument": gen_doc(rng, cat, small, allow_not and i == 0)} for i in range(rng.choice([1, 2]))]
        if rng.random() < 0.3:
            props["ManagedPolicyArns"] = ["arn:aws:iam::aws:policy/ReadOnlyAccess"]
        return {"Type": "AWS::IAM::Role", "Properties": props}
    if r < 0.46:
        return {"Type": "AWS::S3::BucketPolicy", "Properties": {"Bucket": "b", "PolicyDocument": gen_doc(rng, cat, small, allow_not, principal=True)}}
    if r < 0.52:
        return {"Type": "AWS::SQS::QueuePolicy", "Properties": {"Queues": ["q"], "PolicyDocument": gen_doc(rng, cat, small, allow_not, principal=True)}}
    if r < 0.68:
        rules = [{"Name": "r" + str(i), "Priority": i, "Action": copy.deepcopy(rng.choice([{"Block": {}}, {"Allow": {}}, {"Count": {}}, {"Block": {"CustomResponse": {"ResponseCode": 403}}}])),
                  "Statement": {"GeoMatchStatement": {"CountryCodes": ["GB"]}},
                  "VisibilityConfig": {"SampledRequestsEnabled": True, "CloudWatchMetricsEnabled": False, "MetricName": "m"}} for i in range(rng.choice([1, 2, 3]))]
        return {"Type": "AWS::WAFv2::WebACL", "Properties": {"Name": "w", "Scope": "REGIONAL", "DefaultAction": {"Allow": {}}, "Rules": rules}}
    if r < 0.80:
        return {"Type": "AWS::Lambda::Permission", "Properties": {"Action": rng.choice(["lambda:InvokeFunction", "lambda:Invoke*", "lambda:*" if not small else "lambda:GetFunction"]),
                                                                   "FunctionName": "f", "Principal": "s3.amazonaws.com", "SourceAccount": "123456789012"}}
    if r < 0.88:
        return {"Type": "AWS::ElasticLoadBalancingV2::ListenerRule", "Properties": {
            "ListenerArn": "arn:aws:elasticloadbalancing:eu-west-1:123456789012:listener/app/l/1/2", "Priority": 1,
            "Actions": [{"Type": "forward", "TargetGroupArn": "arn:aws:elasticloadbalancing:eu-west-1:123456789012:targetgroup/t/1"}],
            "Conditions": [{"Field": "path-pattern", "Values": ["/x/*"]}]}}
    if r < 0.94:
        props = {"ServiceToken": "arn:aws:lambda:eu-west-1:123456789012:function:f",
                 "Action": odd_action_value(rng, cat), "Nested": {"Deep": [{"Action": action_text(rng, cat, small)}, {"NotAction": odd_action_value(rng, cat)}]}}
        if rng.random() < 0.6:      # explicit nulls are values too: they must survive expand_actions()
            props["KmsKeyId"] = None
            props["Overrides"] = rng.choice([{"Retention": None}, {"Retention": None, "Tier": "x"}, {"L": [None, "a"]}])
        return {"Type": "Custom::Thing", "Properties": props}
    props = {"TopicName": "t", "Tags": [{"Key": "Action", "Value": "s3:Get*"}]}
    if rng.random() < 0.5:
        props["KmsMasterKeyId"] = None
    return {"Type": "AWS::SNS::Topic", "Properties": props}


def gen_template(rng, cat, small=False, allow_not=True, meta_not=True):
    t = {}
    if rng.random() < 0.3:
        t["AWSTemplateFormatVersion"] = "2010-09-09"
    if rng.random() < 0.3:
        t["Description"] = rng.choice(["Action", "s3:Get*", "a template"])
    if rng.random() < 0.35:
        t["Metadata"] = gen_metadata(rng, cat, small, meta_not)      # never walked: NotAction text is harmless here
    if rng.random() < 0.25:
        t["Parameters"] = {"Action": {"Type": "String", "Default": "s3:Get*"}, "Env": {"Type": "String", "Default": "dev", "AllowedValues": ["dev", "prod"]}}
    if rng.random() < 0.2:
        t["Mappings"] = {"Action": {"NotAction": {"Action": "s3:*"}}, "M": {"k": {"v": ["s3:Get*"]}}}
    if rng.random() < 0.2:
        t["Outputs"] = {"Action": {"Value": "s3:Get*", "Description": "NotAction"}}
    res = {}
    nots = 0
    for i in range(rng.choice([1, 1, 2, 2, 3, 4])):
        use_not = allow_not and nots == 0 and rng.random() < 0.3      # keep the number of 18k-entry complements per template small
        r = gen_resource(rng, cat, small, use_not)
        if rng.random() < 0.3:
            r["Metadata"] = gen_metadata(rng, cat, small, use_not)
        if any(k.startswith("notaction-text") for k in action_members(r)):
            nots += 1
        if rng.random() < 0.15:
            r["DependsOn"] = rng.choice(["Other", ["A", "B"]])
        if rng.random() < 0.1:
            r["DeletionPolicy"] = "Retain"
        res[rng.choice(["Action", "NotAction", "R"]) + str(i) if rng.random() < 0.2 else f"Res{i}"] = r
    t["Resources"] = res
    return t


def gen_tree(rng, cat, depth=0):
    r = rng.random()
    if depth >= 4 or r < 0.25:
        return rng.choice([None, True, False, 0, 7, -3, "", "text", "s3:Get*", "Action", small_pattern(rng, cat)])
    if r < 0.45:
        return [gen_tree(rng, cat, depth + 1) for _ in range(rng.choice([0, 1, 2, 3]))]
    d = {}
    for _ in range(rng.choice([0, 1, 2, 3, 4])):
        k = rng.choice(["Action", "Action", "NotAction", "action", "Actions", "Properties", "Rules", "X", "Statement", "Effect"])
        if k in ("Action", "NotAction") and rng.random() < 0.5:
            if k == "NotAction" and depth > 0 and rng.random() < 0.7:
                d[k] = odd_action_value(rng, cat)
            else:
                d[k] = action_text(rng, cat, True)
        elif k in ("Action", "NotAction") and rng.random() < 0.5:
            d[k] = odd_action_value(rng, cat)
        else:
            d[k] = gen_tree(rng, cat, depth + 1)
    return d


def corpus():
    p = core.VERIF / "corpus" / "C10.json"
    if p.exists():
        for c in json.loads(p.read_text()):
            yield SURFACES[c["surface"]], c["input"]


def cases(rng, tier, shard, nshards):
    cat = c09.catalogue()
    if shard == 0:
        yield from corpus()
    if shard == 0:
        # the catalogue entries that do not look like the rest (a character other than letters and digits in the name; a digit or a
        # hyphen in the service): produced by a wildcard, they come back as LITERALS in the second application and must expand to
        # themselves (seeded change C10-r5m1 refused "free text" and with it the one entry with a hyphen in its name)
        import re as _re
        odd = [a for a in cat if not _re.fullmatch(r"[a-z0-9-]+:[A-Za-z0-9]+", a)]
        odd += [a for a in cat if _re.search(r"[0-9-]", a.split(":", 1)[0])][rng.randrange(40)::40]
        for a in odd[:40]:
            svc, name = a.split(":", 1)
            for pat in ([a], svc + ":" + name[:3] + "*", [svc + ":" + name[: max(1, len(name) // 2)] + "*", "sts:AssumeRole"]):
                yield TWICE, {"template": {"Resources": {"P": {"Type": "AWS::IAM::ManagedPolicy", "Properties": {"PolicyDocument": {
                    "Version": "2012-10-17", "Statement": [{"Effect": "Allow", "Action": pat, "Resource": "*"}]}}}}}, "resolve": False}
    # one template, several Action elements whose TEXTS coincide when glued together: ["a,b"] (one pattern that contains the separator
    # and matches nothing) next to ["a", "b"]; every element is expanded on its own (seeded change C09-r7Km1 shared one memo per
    # expand_actions() call, keyed by the comma-joined text)
    for sep in ([",", " ", "|", ";", "\n", ", "] if shard == 0 else []):
        a, b = rng.choice([("s3:GetObject", "s3:PutObject"), ("iam:PassRole", "sts:AssumeRole"), ("ec2:Run*", "ec2:Start*")])
        def pol(act):
            return {"Type": "AWS::IAM::ManagedPolicy", "Properties": {"PolicyDocument": {"Version": "2012-10-17", "Statement": [
                {"Effect": "Allow", "Action": act, "Resource": "*"}]}}}
        twins = [[a + sep + b], [a, b], a + sep + b, [a, b, a + sep + b]]
        rng.shuffle(twins)
        t = {"Resources": {f"P{i}": pol(act) for i, act in enumerate(twins)}}
        t["Resources"]["G"] = {"Type": "Custom::G", "Properties": {"Action": [a + sep + b], "Nested": {"Action": [a, b]}}}
        yield MODEL, {"template": t, "resolve": False}
        yield TWICE, {"template": t, "resolve": False}
    n = {"quick": 200, "thorough": 1100}[tier]
    for _ in range(6):
        yield RESULT_EDITED, {"template": gen_template(rng, cat, small=True), "resolve": rng.random() < 0.5}
    for _ in range(4):      # the history surface first: it must not depend on how far the time budget lets the stream run
        yield EDITED, {"template": gen_template(rng, cat, small=True), "template2": gen_template(rng, cat, small=True),
                       "resolve": rng.random() < 0.3, "drop": rng.random() < 0.5}
    for k in range(n):
        r = k % 8
        if r == 3 and k % 16 == 3:
            yield RESULT_EDITED, {"template": gen_template(rng, cat, small=True), "resolve": rng.random() < 0.5}
        elif r == 3:
            yield EDITED, {"template": gen_template(rng, cat, small=True), "template2": gen_template(rng, cat, small=True),
                           "resolve": rng.random() < 0.3, "drop": rng.random() < 0.5}
        elif r in (0, 1, 2):
            yield MODEL, {"template": gen_template(rng, cat, small=rng.random() < 0.5), "resolve": rng.random() < 0.3}
        elif r in (4, 5):
            yield WALK, {"obj": gen_tree(rng, cat)}
        else:
            yield TWICE, {"template": gen_template(rng, cat, small=True, allow_not=False, meta_not=False), "resolve": rng.random() < 0.3}


def small_catalogue_crosscheck(seed, broken):
    """Extraction cross-check of run10 on a reduced catalogue: the runner's answers must be reproduced by vm_compute."""
    import random
    rng = random.Random(f"kc10/{seed}")
    cat = c09.catalogue()
    small = sorted(set(cat[::160] + [a for a in cat if a.startswith(("s3:GetObject", "iam:Pass", "lambda:Invoke", "sts:AssumeRole"))]))
    rn = core.Runner(keep_samples=10 ** 6, rng=rng)
    try:
        rn.call(0, small, sample=False)
        for k in range(60):
            r = k % 3
            if r == 0:
                rn.call(1003, gen_tree(rng, small))
            else:
                try:
                    d = to_wire(parse_model({"template": gen_template(rng, small, small=True, allow_not=(k % 2 == 0)), "resolve": False}).model_dump())
                except Exception:
                    continue
                if len(wire.enc(d)) > 2500:      # huge literals (200-member condition dumps) make coqc parse for seconds each
                    continue
                rn.call(1001 if r == 1 else 1002, d)
        samples = rn.samples
    finally:
        rn.close()
    st = "{| RState.catalogue := [" + ";".join(wire.coq_str(a) for a in small) + "] |}"
    n, ok, out = core.kernel_crosscheck("C10small", samples, st, "")
    if not ok:
        broken.append({"file": "runner/driver.ml", "theorem": "kernel cross-check of run10 on a reduced catalogue", "message": out})
    return n


def extra_checks(tier, seed, stats, broken):
    if (core.BUILD / "runner").exists():
        stats.bump("kernel_crosscheck_small_catalogue_cases", small_catalogue_crosscheck(seed, broken))
    return []
