"""C11 -- each IAM condition operator performs its documented comparison."""
import base64
import json
import unicodedata
from datetime import datetime, timedelta, timezone

import core
from props import c08, iam_common as ic

ID = "C11"
TABLES = ["operators"]
BUDGET = {"quick": (4, 55), "thorough": (16, 400)}
GEN_OBLIGATIONS = ["Iam/OpTable.v:entries_ok_b", "Iam/OpTable.v:Operators_combos", "Iam/OpTable.v:Operators_names_nodup",
                   "Iam/OpTable.v:Operators_count"]
RULE = ("single-key single-value conditions {op: {k: policy}} for all 27 base operators x (policy, context) pairs biased to the "
        "boundaries of each comparison: equal operands, +-1 (integers, microseconds, seconds), the same instant in another UTC "
        "offset, naive vs aware datetimes, epoch numbers / ISO text / date-only text on the policy side, a network and its "
        "supernet / subnet / sibling / other IP version / non-network text, strings differing by case or by Unicode "
        "normalisation (NFC/NFD/NFKD, ligatures, sharp s, Kelvin sign, dotted I, fullwidth), glob patterns with instantiated and "
        "mutated candidates, base64 policy text vs bytes; plus absent key, None, and wrong-typed context values (list, "
        "other family). non-trivial = the policy validated, the key is present and the model is defined; "
        "distinct by hash of (surface, input).")
ASSUMPTIONS = [
    "policy-side parsing (text/number -> str, int, datetime, network, bytes, bool) is pydantic's: the typed policy operand is "
    "read back from the validated model and handed to the Coq model, so the comparison logic is what is compared",
    "IgnoreCase operators: both operands reach the model together with Python's own normalize('NFKD', s.casefold()) of each "
    "string (leaf oracle: Unicode tables are not modelled); C11_ignorecase holds for every fold function",
    "datetimes are compared as (aware?, microseconds since the epoch); a naive datetime is read by its wall-clock fields",
    "networks are compared arithmetically as (version, network address, prefix length) computed by Python's ipaddress",
    "single-line text for Like/NotLike (as C08); floats are outside the operand universe (counted as model_undefined)",
    "Null follows the code and the four pinned tests (key present <=> policy true), the reverse of the AWS wording; "
    "IpAddress/NotIpAddress with a non-network policy string are both constantly False (follows the code)",
]
MODELLED = ("build_evaluator is not translated: op_test (theories/Iam/Ops.v) is hand-written and tied to it by running both on the same "
            "operand pairs through StatementCondition(...)(ctx) and .eval(ctx); the operator table gen/Operators.v is translated "
            "from the live class and its finite facts re-proved on every run")

BASE_OPS = [
    "StringEquals", "StringNotEquals", "StringEqualsIgnoreCase", "StringNotEqualsIgnoreCase", "StringLike", "StringNotLike",
    "NumericEquals", "NumericNotEquals", "NumericLessThan", "NumericLessThanEquals", "NumericGreaterThan",
    "NumericGreaterThanEquals",
    "DateEquals", "DateNotEquals", "DateLessThan", "DateLessThanEquals", "DateGreaterThan", "DateGreaterThanEquals",
    "Bool", "BinaryEquals", "IpAddress", "NotIpAddress", "ArnEquals", "ArnLike", "ArnNotEquals", "ArnNotLike", "Null",
]
KEY = "k"


def _sc():
    from pycfmodel.model.resources.properties.statement_condition import StatementCondition
    return StatementCondition


class OpSurface(core.Surface):
    """x = {"op": base operator, "pol": raw policy value, "ctx": {} | {"k": context value}}"""
    frozen = frozenset({"op"})
    theorem = "C11_equals / C11_order / C11_ignorecase / C11_like / C11_ip_operator / C11_bool_identity / C11_null_presence / C11_negation_dual"

    def model(self, rn, x):
        import pydantic
        strings = set()
        try:
            pol = ic.typed_policy(x["op"], KEY, x["pol"], strings)
            if isinstance(pol, list):
                return ("EXC", "EUndefined", "")     # C11 is about single values
            ctx = ic.ctx_to_py(x["ctx"])
            cl = [ic.ctxval_to_wire(ctx[KEY], strings)] if KEY in ctx else []
            if cl and isinstance(cl[0], list):
                cl = [{"other": None}]                 # a list handed to a single-value comparison is just another object
        except (pydantic.ValidationError, ic.Undefined, TypeError):
            return ("EXC", "EUndefined", "")
        return core.model_res(rn.call(1101, [x["op"], pol, cl, ic.fold_table(strings)]))

    def tags(self, x):
        t = {"fam:" + ic.family_of(x["op"])}
        if KEY not in x["ctx"]:
            t.add("ctx:absent")
        elif isinstance(x["ctx"][KEY], list):
            t.add("ctx:list")
        elif x["ctx"][KEY] is None:
            t.add("ctx:none")
        if "Not" in x["op"]:
            t.add("negated")
        return t

    def nontrivial(self, x, i, m):
        return KEY in x["ctx"] and m[0] == "OK"


class CallSurface(OpSurface):
    name = "StatementCondition.model_validate({op: {k: v}})(ctx)"

    def impl(self, x):
        return core.impl_call(lambda: _sc().model_validate({x["op"]: {KEY: x["pol"]}})(ic.ctx_to_py(x["ctx"])))

    def agree(self, x, i, m):
        return i[0] == "OK" and m[0] == "OK" and ic.strict_same(i[1], m[1])


class WarmCallSurface(CallSurface):
    """history: the same text is first used as an IAM Action pattern (case-insensitive matching) in this process, then as the
    policy value of a Like operator (case-sensitive matching)"""
    name = "Statement(Action=[v]).get_expanded_action_list(); StatementCondition({op: {k: v}})(ctx)"

    def impl(self, x):
        def run():
            from pycfmodel.model.resources.properties.statement import Statement
            if isinstance(x["pol"], str):
                try:
                    Statement(Effect="Allow", Action=[x["pol"]], Resource="*").get_expanded_action_list()
                except Exception:
                    pass
            return _sc().model_validate({x["op"]: {KEY: x["pol"]}})(ic.ctx_to_py(x["ctx"]))
        return core.impl_call(run)


class EvalSurface(OpSurface):
    name = "StatementCondition(**{op: {k: v}}).eval(ctx)"

    def impl(self, x):
        return core.impl_call(lambda: _sc()(**{x["op"]: {KEY: x["pol"]}}).eval(ic.ctx_to_py(x["ctx"])))

    def agree(self, x, i, m):
        if m[0] != "OK":
            return False
        if m[1] is None:          # the model says the comparison raises
            return i[0] == "EXC" and i[1] not in ("TIMEOUT", "EValidation", "ERecursion")
        return i[0] == "OK" and ic.strict_same(i[1], m[1])


class PolicyTypeSurface(core.Surface):
    """a policy value that IS a literal of the operator's type must be stored typed (alone or in a list): otherwise the
    operator silently degenerates (a network kept as text never matches)"""
    name = "stored type of StatementCondition({op: {k: literal of the operator's type}})[op][k]"
    theorem = "C11_ip / C11_order / C11_equals are stated for operands OF THE OPERATOR'S TYPE"
    shrinkable = False

    @staticmethod
    def kind(v):
        import datetime
        import ipaddress
        if isinstance(v, list):
            return [PolicyTypeSurface.kind(z) for z in v]
        if isinstance(v, bool):
            return "bool"
        for t, n in ((ipaddress.IPv4Network, "net4"), (ipaddress.IPv6Network, "net6")):
            if isinstance(v, t):
                return n + ":" + str(v)            # the range denoted, not only the kind
        # ... and for the other families the VALUE stored, not only its kind (the typed operand handed to the model by the other
        # surfaces is read back from the implementation: audit finding A1 -- here it is checked against independent oracles)
        if isinstance(v, int):
            return "int:" + str(v)
        if isinstance(v, datetime.datetime):
            u = v if v.tzinfo is None else v.astimezone(datetime.timezone.utc)
            return "datetime:" + ("naive:" if v.tzinfo is None else "utc:") + u.replace(tzinfo=None).isoformat()
        if isinstance(v, bytes):
            return "bytes:" + v.hex()
        if isinstance(v, str):
            return "str"
        return type(v).__name__

    def impl(self, x):
        def run():
            sc = _sc().model_validate({x["op"]: {KEY: x["pol"]}})
            return self.kind(getattr(sc, x["op"].replace(":", ""))[KEY])
        return core.impl_call(run)

    def model(self, rn, x):
        return ("OK", x["expect"])

    def tags(self, x):
        return {"policy-typing", x["fam"]}


CALL, EVAL, WARM, PTYPE = CallSurface(), EvalSurface(), WarmCallSurface(), PolicyTypeSurface()
SURFACES = {s.name: s for s in (CALL, EVAL, WARM, PTYPE)}


def gen_policy_typing(rng, table):
    """valid literals of each family, alone and in lists"""
    import ipaddress
    name, fam = rng.choice([(n, f) for n, f in table if f in ("ip", "int", "date", "bool", "bytes")])

    def one():
        if fam == "ip":
            # every spelling of a range (host bits set, netmask / hostmask form, a bare address, upper-case hex) is a range: it must
            # be stored as THE network it denotes -- the stdlib (strict=False) is the oracle, not the library's own validator
            # (audit experiment 8: strict parsing kept "10.1.2.3/16" as text, so IpAddress never matched)
            if rng.random() < 0.5:
                addr, plen = rng.getrandbits(32), rng.choice([0, 8, 16, 24, 31, 32])
                a = ipaddress.IPv4Network((addr, plen), strict=False)
                host = str(ipaddress.IPv4Address(addr))
                txt = rng.choice([str(a), host + "/" + str(plen), host + "/" + str(a.netmask), host + "/" + str(a.hostmask), host])
                return txt, "net4:" + str(ipaddress.ip_network(txt, strict=False))
            addr, plen = rng.getrandbits(128), rng.choice([0, 32, 64, 127, 128])
            a = ipaddress.IPv6Network((addr, plen), strict=False)
            host = ipaddress.IPv6Address(addr)
            txt = rng.choice([str(a), a.exploded, str(host) + "/" + str(plen), host.exploded.upper() + "/" + str(plen), str(host)])
            return txt, "net6:" + str(ipaddress.ip_network(txt, strict=False))
        if fam == "int":
            v = rng.choice([0, 7, -3, 2 ** 40, 443])
            return rng.choice([v, str(v)]), "int:" + str(v)
        if fam == "date":
            import datetime as dt
            txt, want = rng.choice([
                ("2020-01-01T00:00:00Z", "utc:2020-01-01T00:00:00"), ("2019-12-31T23:59:59+01:00", "utc:2019-12-31T22:59:59"),
                ("2021-06-01T12:00:00", "naive:2021-06-01T12:00:00"), (1577836800, "utc:2020-01-01T00:00:00"),
                ("2030-01-01T00:00:00+05:30", "utc:2029-12-31T18:30:00"), ("2020-02-29 23:59:59.500000-08:00", "utc:2020-03-01T07:59:59.500000")])
            return txt, "datetime:" + want
        if fam == "bool":
            v = rng.choice([True, False, "true", "FALSE", "True", "false"])
            return v, "bool"
        import base64
        txt = rng.choice(["QQ==", "YWJj", "", "AAEC/w==", "QmluYXJ5"])
        return txt, "bytes:" + base64.b64decode(txt).hex()
    if fam != "bool" and rng.random() < 0.4:
        items = [one() for _ in range(rng.randint(1, 3))]
        return {"op": name, "fam": fam, "pol": [i[0] for i in items], "expect": [i[1] for i in items]}
    v, k = one()
    return {"op": name, "fam": fam, "pol": v, "expect": k}


def prepare(rn):
    ic.check_runner_table(rn)


# ---------------------------------------------------------------------------------------------- generators

STR_GROUPS = [   # members of one group are equal under casefold+NFKD (or are each other's near misses)
    ["a", "A"], ["abc", "ABC", "aBc", "abd"], ["", " "],
    ["ﬁ", "fi", "FI", "Fi", "fı"],                       # ligature fi; dotless i is NOT folded to i
    ["Straße", "STRASSE", "strasse", "Straẞe", "Strasse "],
    ["é", "é", "É", "É", "e"],                # composed / decomposed accents
    ["Å", "Å", "å", "Å"],                     # Angstrom sign / A with ring
    ["K", "k", "K"],                                           # Kelvin sign
    ["İ", "i̇", "I", "i"],                                # dotted capital I
    ["ς", "σ", "Σ"],                                 # final sigma
    ["ｆｕｌｌ", "full", "FULL"],                   # fullwidth
    ["①", "1"], ["ſ", "s", "S"], ["ǅ", "ǆ", "Ǆ", "dž"],
    ["arn:aws:s3:::bucket/key", "arn:aws:s3:::Bucket/key", "ARN:AWS:S3:::BUCKET/KEY", "arn:aws:s3:::bucket/ke"],
    ["arn:aws:iam::123456789012:role/admin", "arn:aws:iam::123456789012:role/Admin", "arn:aws:iam::123456789012:role/admi"],
    ["true", "True", "TRUE"], ["5", "05", "5 "], ["10.0.0.0/8", "10.0.0.0/08"],
]
FOLD_LETTERS = list("aAbBzZ09 -_/:.") + ["ß", "ẞ", "é", "É", "e\u0301", "ﬁ", "ﬀ", "ſ", "K", "Å", "İ", "ı", "ς", "σ", "Σ", "ǅ", "ŉ", "ǰ", "ᾳ", "ﬗ",
                                          "①", "ａ", "Ａ", "µ", "μ", "ё", "Ё", "ö", "Ö", "o\u0308", "中", "𝐀", "Ⅷ", "ⅷ"]
LIKE_PAIRS = [("a*", "abc"), ("a*", "Abc"), ("A*", "abc"), ("arn:aws:s3:::b?cket/*", "arn:aws:s3:::bucket/x.y"),
              ("arn:aws:s3:::b?cket/*", "arn:aws:s3:::BUCKET/x"), ("a.c", "abc"), ("a.c", "a.c"), ("(a", "(a"), ("*", ""),
              ("?", ""), ("?", "é"), ("?", "é"), ("a$", "a$"), ("^a", "^a"), ("[a]", "a"), ("a|b", "a"), ("a\\", "a\\"),
              ("é*", "été"), ("é*", "été"), ("*ß", "Straß"), ("*ß", "STRASS")]
# a question mark right after a star still asks for one more character (seeded changes C11-r4m2 / C09-r5m2 dropped it; these pairs
# make the detection independent of the random stream)
LIKE_PAIRS += [("team-*?", "team-"), ("team-*?", "team-x"), ("arn:aws:s3:::logs-*?/*", "arn:aws:s3:::logs-/x"), ("a*?*?", "ab"),
               ("a*?*?", "abc"), ("*?", ""), ("*?", "x"), ("**?", ""), ("a?*", "a"), ("a?*", "ab")]
WRONG = [None, 0, 1, True, False, 5, "", "x", [], ["a"], [1], {"$net": "10.0.0.0/8"}, {"$bytes": "YQ=="},
         {"$dt": "2020-01-01T00:00:00+00:00"}, {"$dt": "2020-01-01T00:00:00"}]
INTS = [0, 1, -1, 2, 5, 255, 2 ** 31 - 1, 2 ** 31, 2 ** 32, 2 ** 53, 2 ** 63 - 1, -2 ** 63, 2 ** 63, 2 ** 64, 10 ** 30, -10 ** 30, 1577836800]
T0S = [0, 1577836800 * 10 ** 6, 1577836800 * 10 ** 6 + 1, 951782400 * 10 ** 6, -86400 * 10 ** 6, 1709164800 * 10 ** 6 + 500000,
       253402041600 * 10 ** 6, 1893456000 * 10 ** 6]
OFFSETS = [0, 60, -300, 330, 765, -720]
BYTES = [b"", b"a", b"abc", b"abd", b"\x00", b"\x00\xff", b"\xff\xfe\xfd", b"abc\n", "hé".encode()]
NETS4 = [("10.0.0.0", 8), ("10.1.0.0", 16), ("10.1.2.0", 24), ("10.1.2.3", 32), ("0.0.0.0", 0), ("192.168.0.0", 16),
         ("172.16.0.0", 12), ("255.255.255.255", 32), ("128.0.0.0", 1), ("0.0.0.0", 1)]
NETS6 = [("::", 0), ("2001:db8::", 32), ("2001:db8:1::", 48), ("2001:db8:1::1", 128), ("fe80::", 10), ("::ffff:10.0.0.0", 104),
         ("8000::", 1), ("ffff:ffff:ffff:ffff:ffff:ffff:ffff:ffff", 128)]


def variants(rng, s):
    vs = [s, s.swapcase(), s.upper(), s.lower(), s.casefold(), s.title(),
          unicodedata.normalize("NFC", s), unicodedata.normalize("NFD", s), unicodedata.normalize("NFKD", s),
          unicodedata.normalize("NFKC", s), unicodedata.normalize("NFKD", s.casefold())]
    return rng.choice(vs)


def gen_string_pair(rng, like):
    r = rng.random()
    if like and r < 0.35:
        p, s = rng.choice(LIKE_PAIRS)
        return p, s
    if like and r < 0.75:
        p, s = c08.gen_pair(rng, rng.random() < 0.3)
        return p, s
    g = rng.choice(STR_GROUPS)
    if rng.random() < 0.3:        # random words over letters with interesting case / compatibility mappings
        w = "".join(rng.choice(FOLD_LETTERS) for _ in range(rng.choice([1, 2, 3, 5, 8])))
        g = [w, w.upper(), w.lower(), w.casefold(), w.swapcase(), unicodedata.normalize("NFD", w), w[:-1], w + "s"]
    p = rng.choice(g)
    r = rng.random()
    if r < 0.25:
        c = p
    elif r < 0.6:
        c = rng.choice(g)
    elif r < 0.85:
        c = variants(rng, p)
    elif r < 0.93:
        c = c08.mutate(rng, p)
    else:
        c = rng.choice(rng.choice(STR_GROUPS))
    if rng.random() < 0.1:
        p = variants(rng, p)
    return p, c


def iso(us, off_min=None, naive=False, style=0):
    base = datetime(1970, 1, 1) + timedelta(microseconds=us)
    if naive:
        return base.isoformat()
    d = (base + timedelta(minutes=off_min)).replace(tzinfo=timezone(timedelta(minutes=off_min)))
    t = d.isoformat()
    if off_min == 0 and style == 1:
        t = t.replace("+00:00", "Z")
    return t


def gen_date_policy(rng, us):
    r = rng.random()
    if r < 0.3:
        return iso(us, 0, style=1)
    if r < 0.5:
        return iso(us, rng.choice(OFFSETS))
    if r < 0.65:
        return iso(us, naive=True)
    if us % 10 ** 6 == 0 and abs(us) < 2 * 10 ** 16:
        s = us // 10 ** 6
        return rng.choice([s, str(s), s if r < 0.8 else float(s)])
    return iso(us, 0)


def gen_date_ctx(rng, us):
    r = rng.random()
    d = rng.choice([0, 0, 0, 1, -1, 10 ** 6, -10 ** 6, 3600 * 10 ** 6, -3600 * 10 ** 6, 86400 * 10 ** 6])
    if r < 0.7:
        return {"$dt": iso(us + d, rng.choice(OFFSETS))}
    if r < 0.9:
        return {"$dt": iso(us + d, naive=True)}
    return rng.choice([us // 10 ** 6, iso(us, 0), None])


def subnet_family(rng, v6):
    addr, plen = rng.choice(NETS6 if v6 else NETS4)
    from ipaddress import ip_network
    n = ip_network(f"{addr}/{plen}", strict=False)
    width = 128 if v6 else 32
    r = rng.random()
    if r < 0.2:
        c = n
    elif r < 0.45 and n.prefixlen < width:      # a subnet
        newp = rng.randrange(n.prefixlen + 1, min(width, n.prefixlen + 9) + 1)
        subs = n.subnets(new_prefix=newp)
        c = next(subs)
        if rng.random() < 0.5:
            c = type(n)((int(n.broadcast_address) >> (width - newp) << (width - newp), newp))   # the LAST subnet
    elif r < 0.65 and n.prefixlen > 0:          # a supernet
        c = n.supernet(new_prefix=rng.randrange(max(0, n.prefixlen - 8), n.prefixlen))
    elif r < 0.8 and n.prefixlen > 0:           # the sibling block (disjoint, adjacent)
        c = type(n)((int(n.network_address) ^ (1 << (width - n.prefixlen)), n.prefixlen))
    elif r < 0.9:                               # other IP version
        a2, p2 = rng.choice(NETS4 if v6 else NETS6)
        c = ip_network(f"{a2}/{p2}", strict=False)
    else:
        a2, p2 = rng.choice(NETS6 if v6 else NETS4)
        c = ip_network(f"{a2}/{p2}", strict=False)
    return n, c


def gen_ip_policy_text(rng, n):
    r = rng.random()
    if r < 0.6:
        return str(n)
    if r < 0.75:                                 # host bits set (loose parsing)
        host = int(n.network_address) | rng.randrange(0, max(1, int(n.hostmask) + 1))
        return f"{type(n.network_address)(host)}/{n.prefixlen}"
    if r < 0.85 and n.version == 4:
        return f"{n.network_address}/{n.netmask}"
    if r < 0.93 and n.prefixlen == n.max_prefixlen:
        return str(n.network_address)
    return str(n)


def gen_case(rng, op):
    fam = ic.family_of(op)
    wrong = rng.random() < 0.12
    absent = rng.random() < 0.05
    if fam in ("str", "arn"):
        p, c = gen_string_pair(rng, "Like" in op)
        if fam == "arn" and rng.random() < 0.5 and "Like" not in op:
            g = rng.choice(STR_GROUPS[14:16])
            p, c = rng.choice(g), rng.choice(g)
        pol = p
    elif fam == "int":
        n = rng.choice(INTS) if rng.random() < 0.6 else rng.randrange(-2 ** rng.choice([8, 33, 70]), 2 ** rng.choice([8, 33, 70]))
        pol = rng.choice([n, n, str(n), n if n not in (0, 1) else bool(n)])
        c = n + rng.choice([0, 0, 1, -1, 2, -2, 10 ** 9])
        if rng.random() < 0.08:
            c = rng.choice([bool(c % 2), str(c), float(c) if abs(c) < 2 ** 53 else c])
    elif fam == "date":
        gran = rng.choice([1, 10 ** 6])
        us = rng.choice(T0S) if rng.random() < 0.6 else rng.randrange(-10 ** 15, 4 * 10 ** 15) // gran * gran
        pol, c = gen_date_policy(rng, us), gen_date_ctx(rng, us)
    elif fam == "bool":
        pol = rng.choice([True, False, "true", "false", "True", "FALSE"])
        c = rng.choice([True, False, True, False, 1, 0, "true", "false", None, [True]])
    elif fam == "null":
        pol = rng.choice([True, False, "true", "false", "TRUE"])
        c = rng.choice([None, 0, "", False, [], [None], "x", 7, {"$net": "::/0"}, {"$bytes": ""}])
        absent = rng.random() < 0.35
    elif fam == "bytes":
        b = rng.choice(BYTES)
        pol = base64.b64encode(b).decode()
        if rng.random() < 0.1:
            pol = pol.rstrip("=") or pol
        c2 = rng.choice([b, b, b + b"\x00", b[:-1], rng.choice(BYTES)])
        c = {"$bytes": base64.b64encode(c2).decode()}
        if rng.random() < 0.1:
            c = rng.choice([pol, b.decode("latin-1"), list(b)])
    else:  # ip
        n, cn = subnet_family(rng, rng.random() < 0.35)
        pol = gen_ip_policy_text(rng, n)
        if rng.random() < 0.08:
            pol = rng.choice(["foo", "", "10.0.0.0/33", "10.0.0/8", "300.0.0.0/8", ":::/0", str(n) + " "])
        c = {"$net": str(cn)}
        if rng.random() < 0.08:
            c = rng.choice([str(cn), int(cn.network_address), None])
    if wrong:
        c = rng.choice(WRONG)
    ctx = {} if absent else {KEY: c}
    return {"op": op, "pol": pol, "ctx": ctx}


def corpus():
    p = core.VERIF / "corpus" / "C11.json"
    if p.exists():
        for c in json.loads(p.read_text()):
            yield SURFACES[c["surface"]], c["input"]


def cases(rng, tier, shard, nshards):
    if shard == 0:
        for s, x in corpus():
            yield s, x
        for op in BASE_OPS:              # every operator meets every wrong-typed context value and the absent key, once
            x0 = gen_case(rng, op)
            for w in WRONG:
                yield CALL, {"op": op, "pol": x0["pol"], "ctx": {KEY: w}}
                yield EVAL, {"op": op, "pol": x0["pol"], "ctx": {KEY: w}}
            yield CALL, {"op": op, "pol": x0["pol"], "ctx": {}}
            yield EVAL, {"op": op, "pol": x0["pol"], "ctx": {}}
    n = {"quick": 4500, "thorough": 40000}[tier]
    table = [(name, ic.family_of(base)) for name, (q, base, ifx) in ic.live_table().items()]
    for k in range(n):
        if k % 6 == 0:
            yield PTYPE, gen_policy_typing(rng, table)
        op = BASE_OPS[(k + shard) % len(BASE_OPS)]
        x = gen_case(rng, op)
        if "Like" in x["op"] and isinstance(x.get("pol"), str) and k % 2:
            yield WARM, x          # BEFORE the text is ever used by a Like operator in this process
        yield (CALL if k % 3 else EVAL), x
        if k % 7 == 0:
            # the negated operator on the very same operands (C11_negation_dual through the implementation)
            dual = {"StringEquals": "StringNotEquals", "StringEqualsIgnoreCase": "StringNotEqualsIgnoreCase",
                    "StringLike": "StringNotLike", "NumericEquals": "NumericNotEquals", "DateEquals": "DateNotEquals",
                    "ArnEquals": "ArnNotEquals", "ArnLike": "ArnNotLike", "IpAddress": "NotIpAddress"}.get(op)
            if dual:
                yield CALL, dict(x, op=dual)
