"""C13 -- every embedded policy document is discoverable, exactly once."""
import copy
import json
import random

import core
import generic_oracle as go
import schemagen
from props.c18 import wide

ID = "C13"
TABLES = ["generic_tables", "pd_paths"]
BUDGET = {"quick": (4, 40), "thorough": (16, 400)}
RULE = ("resources of all 18 modelled types and of random unmodelled types whose Properties hold 0-4 policy documents with DISTINCT Sids at "
        "random paths (object keys / list indices, depth <= 6): single-statement and list forms, with and without Condition, JSON-encoded at "
        "the top of a property, inside named wrappers, next to look-alikes (lone Statement, Statement: [], extra keys, invalid Effect, wrapper "
        "with an extra key); observed on the RESOLVED model. non-trivial = at least one document or look-alike is placed -- distinct by hash "
        "of (surface, input).  Lists are compared as multisets: Python iterates model_fields_set (a set) so the order across object members is "
        "unspecified; order inside lists is the model's traversal order.")
ASSUMPTIONS = [
    "stage 1 (DESIGN C13 staging): the recogniser 'this object validates as a member of the Properties union, and these are its statements' is a "
    "per-node ORACLE annotation computed with TypeAdapter(Properties) in isolation; the theorems are parametric in it (they hold for every annotation)",
    "name annotations of recognised wrappers are confirmed by the Gallina checker name_confirmed on every case (op 1305)",
    "main stream: no JSON-encoded string hides a document below its top level (runner checks hidden_free on every case); the separate F16 stream "
    "builds exactly such inputs and their divergence from the property's reading is matched as known finding F16",
    "address ranges of any width are part of the domain since defects F11/F12 were repaired (the former guard is kept behind VERIF_NARROW_ONLY)",
    "no object whose only key names an intrinsic function, other than {Ref: AWS::Region} (resolve() takes it for a function call: known defect 18 "
    "of C03/C05); such inputs are declined (EUndefined) so that the shrinker cannot drift into that defect",
    "documents are observed through resource.policy_documents / all_statement_conditions / IAMRole.assume_role_as_optionally_named_policy_document_list "
    "of parse(template).resolve(); property names are ASCII identifiers that do not collide with pydantic BaseModel attributes",
]
MODELLED = ("_Auxiliar.cast / Generic.casting / Resource.policy_documents / obtain_policy_documents / all_statement_conditions and the per-class "
            "policy_documents overrides are hand-modelled (Typed/Cast.v, Collect.v, TypedDocs.v, PdSpec.v) and tied by running the accessors on "
            "the same resources; the schema paths that can hold a document are regenerated (gen/PdPaths.v) and proved equal to PdSpec.SPEC_TABLE")
GEN_OBLIGATIONS = ["PdCheck.pd_table_is_spec", "PdCheck.spec_table_covered", "PdCheck.aux_order_is_spec", "PdCheck.properties_order_is_spec"]

_F = None


def funcs():
    global _F
    if _F is None:
        _F = go.funcs()
    return _F


# ---------------------------------------------------------------------------------------------
# observation of the implementation

def key(x):
    return json.dumps(x, sort_keys=True, default=str)


def obs_docs(pds):
    out = []
    for p in pds:
        sids = [st.Sid if (st.Sid is None or isinstance(st.Sid, str)) else key(st.Sid.model_dump()) for st in p.policy_document.statement_as_list()]
        out.append([p.name if (p.name is None or isinstance(p.name, str)) else key(p.name.model_dump()), sids])
    return sorted(out, key=key)


def resolved_resource(x):
    from pycfmodel import parse
    t = {"Resources": {"r": {"Type": x["type"], "Properties": x["props"]}}}
    return parse(t).resolve().Resources["r"]


def model_docs(v):
    return sorted([[n, [st[0] for st in d]] for n, d in v], key=key)


def stray_function(v):
    """an object whose ONLY key names an intrinsic function (other than the filler {"Ref": "AWS::Region"}): resolve() treats it as a
    function call wherever it sits (e.g. {"Condition": {...}} -> TypeError, known defect 18 of C03/C05) -- outside this property"""
    if isinstance(v, list):
        return any(stray_function(x) for x in v)
    if isinstance(v, dict):
        if len(v) == 1 and next(iter(v)) in funcs() and v != {"Ref": "AWS::Region"}:
            return True
        return any(stray_function(x) for x in v.values())
    return False


def ok_input(x):
    return (isinstance(x, dict) and set(x) == {"type", "props"} and isinstance(x["type"], str) and isinstance(x["props"], dict)
            and all(isinstance(k, str) and k.isidentifier() and not k.startswith("model_") for k in x["props"]) and not wide(x["props"])
            and not stray_function(x["props"]))


class Base(core.Surface):
    typed = False
    _last = (None, set())

    def declined(self, x):
        if not ok_input(x):
            return True
        return (x["type"] in live_types()) != self.typed

    def impl(self, x):
        if self.declined(x):
            return ("EXC", "EUndefined", "")
        return core.impl_call(self.observe, x, limit=10.0)

    def model(self, rn, x):
        if self.declined(x):
            return ("EXC", "EUndefined", "")
        try:
            ann = go.annotate_props(x["props"])
        except go.Refused as e:
            # not an answer the implementation can agree with: reported with the refused document as the counterexample
            return ("OK", {"a well-formed policy document is refused by the library's own classes (recognised as)": e.got, "document": e.node})
        if self.typed:
            out = rn.call(1306, [0, funcs(), x["type"], ann], sample=len(key(x)) < 600)
            type(self)._last = (key(x), set())
            return ("OK", self.predict(out))
        out = rn.call(1309, [0, funcs(), ann], sample=len(key(x)) < 600)
        hidden_free, names_ok, docs, emb_impl, emb_spec, conds, conds_spec = out
        if not names_ok:
            raise core.ModelError(f"oracle PolicyName annotation not confirmed by name_confirmed on {x!r}")
        if docs != emb_impl:
            raise core.ModelError(f"theorem C13_exactly_once_impl contradicted by the runner on {x!r}")
        if hidden_free and (docs != emb_spec or conds != conds_spec):
            raise core.ModelError(f"theorem C13_exactly_once contradicted by the runner on {x!r}")
        type(self)._last = (key(x), set() if hidden_free else {"json-hidden-doc"})
        return ("OK", self.predict(out))

    def tags(self, x):
        if type(self)._last[0] == key(x) and type(self)._last[1]:
            return set(type(self)._last[1])        # a known-finding construct: the tag set is exactly that construct
        return describe_tags(x)

    def nontrivial(self, x, i, m):
        return "Statement" in key(x["props"])


class DocsSpec(Base):
    name = "resource.policy_documents"
    theorem = "C13_exactly_once / C13_named (the property's reading: every JSON-encoded string is entered)"

    def observe(self, x):
        return obs_docs(resolved_resource(x).policy_documents)

    def predict(self, out):
        return model_docs(out[4])


class DocsImpl(Base):
    name = "resource.policy_documents [code's reading]"
    theorem = "C13_exactly_once_impl (faithful model: a JSON string is entered only when its decoded top level is accepted)"

    def observe(self, x):
        # history: the accessor is asked, its returned list is emptied by the caller, and it is asked again on the same resource;
        # then a copy of the resource WITHOUT properties is asked: every answer must describe the resource it is asked of
        r = resolved_resource(x)
        first = r.policy_documents
        first_obs = obs_docs(first)
        try:
            first.clear()
        except Exception:
            pass
        again = obs_docs(r.policy_documents)
        if again != first_obs:
            return {"second-answer-on-the-same-resource-differs": [first_obs, again]}
        try:
            bare = r.model_copy(update={"Properties": None})
            if type(r).__name__ == "GenericResource" and obs_docs(bare.policy_documents) != obs_docs([]):
                return {"copy-without-properties-still-reports-documents": obs_docs(bare.policy_documents)}
        except Exception:
            pass
        return again

    def predict(self, out):
        return model_docs(out[2])


class Conditions(Base):
    name = "resource.all_statement_conditions"
    theorem = "C13_conditions"

    def observe(self, x):
        return sorted(go.canon_condition(c) for c in resolved_resource(x).all_statement_conditions)

    def predict(self, out):
        return sorted(out[6])


class Typed(Base):
    name = "modelled resource: policy_documents / all_statement_conditions / dedicated accessor"
    theorem = "C13_typed_paths / C13_typed_generic_field"
    typed = True
    frozen = frozenset({"type"})

    def observe(self, x):
        r = resolved_resource(x)
        if type(r).__name__ == "GenericResource":
            raise ValueError("modelled type parsed as GenericResource")
        ded = obs_docs(r.assume_role_as_optionally_named_policy_document_list) if hasattr(r, "assume_role_as_optionally_named_policy_document_list") else []
        return [obs_docs(r.policy_documents), ded, sorted(go.canon_condition(c) for c in r.all_statement_conditions)]

    def predict(self, out):
        docs, ded, conds = out
        return [model_docs(docs), model_docs(ded), sorted(conds)]


SPEC, IMPL, COND, TYPED = DocsSpec(), DocsImpl(), Conditions(), Typed()
SURFACES = {s.name: s for s in (SPEC, IMPL, COND, TYPED)}


# ---------------------------------------------------------------------------------------------
# generators

CONDS = [{"StringEquals": {"aws:username": "bob"}}, {"Bool": {"aws:SecureTransport": "true"}}, {"IpAddress": {"aws:SourceIp": "10.0.0.0/24"}},
         {"DateLessThan": {"aws:CurrentTime": "2020-01-01T00:00:01Z"}}, {"StringLike": {"s3:prefix": ["a/*", "b/*"]}, "Null": {"aws:TokenIssueTime": "false"}},
         {},
         # IAM writes a point in time as ISO 8601 text OR as epoch seconds (text or number); numbers as numbers or digit text
         # (seeded change C13-r6Hm2 refused "a number as a date" in the Date operators: the document silently stopped being one)
         {"DateLessThan": {"aws:EpochTime": "1767225600"}}, {"DateGreaterThan": {"aws:EpochTime": 1767225600}},
         {"DateGreaterThanEquals": {"aws:CurrentTime": "2020-06-01"}, "NumericLessThanEquals": {"s3:max-keys": "10"}},
         {"NumericEquals": {"s3:max-keys": 10}}, {"NotIpAddress": {"aws:SourceIp": ["10.0.0.0/8", "2001:db8::/32"]}},
         {"ForAnyValue:StringLike": {"aws:TagKeys": ["a*"]}}, {"StringEqualsIfExists": {"aws:RequestTag/x": "y"}},
         {"Bool": {"aws:MultiFactorAuthPresent": True}}, {"BinaryEquals": {"k": "QmluYXJ5VmFsdWVJbkJhc2U2NA=="}}]
KEYS = ["A", "B", "C", "Config", "Items", "Policy", "Doc", "Settings", "Rules", "X1", "nested", "snake_case", "Data", "Extra", "Z"]
FILLER = ["potato", "us-east-1", 1, 0, True, None, "true", "2020-01-01", "10.0.0.1/32", 1.5, "", "arn:aws:s3:::b", [], {}, "[1,2]", '{"a":1}',
          {"Key": "k", "Value": "v"}, {"Ref": "AWS::Region"}, "x y", "*", ["a", "b"], {"a": {"b": "c"}}, "null", '"x"']


class Sids:
    def __init__(self, rng=None):
        self.n = 0
        self.rng = rng

    def next(self):
        self.n += 1
        if self.rng is not None and self.rng.random() < 0.25:
            # a Sid is free text for pycfmodel: hyphens, spaces, underscores, non-ASCII, no text at all (audit experiment 2: an
            # "IAM rule" validator [A-Za-z0-9 ]* made documents with a Sid like allow-pull silently undiscovered)
            return self.rng.choice(["allow-pull", "with space", "snake_case", "ünï-çødé", "", "a.b/c:d", "x" * 90, "42", "Sid#"]) + f"-{self.n}"
        return f"Sid{self.n}"


def statement(rng, sids, with_sid=True):
    st = {"Effect": rng.choice(["Allow", "Deny", "allow"]), "Action": rng.choice(["s3:GetObject", ["s3:*", "ec2:Describe*"], "*"]),
          "Resource": rng.choice(["*", "arn:aws:s3:::b/*", ["arn:aws:s3:::a", "arn:aws:s3:::b"]])}
    if with_sid:
        st = {"Sid": sids.next(), **st}
    if rng.random() < 0.2:
        # the negated elements: a document is a document whatever its statements are made of
        st.pop("Action")
        st["NotAction"] = rng.choice(["iam:*", ["s3:Delete*", "s3:Put*"]])
    if rng.random() < 0.15:
        st.pop("Resource")
        st["NotResource"] = rng.choice(["arn:aws:s3:::keep/*", ["arn:aws:s3:::a", "arn:aws:s3:::b"]])
    if rng.random() < 0.4:
        st["Condition"] = copy.deepcopy(rng.choice(CONDS))
    if rng.random() < 0.2:
        st[rng.choice(["Principal", "Principal", "NotPrincipal"])] = rng.choice(["*", {"AWS": "arn:aws:iam::123456789012:root"}, {"Service": ["ec2.amazonaws.com"]}])
    return st


def document(rng, sids):
    r = rng.random()
    if r < 0.25:
        body = statement(rng, sids)                       # single statement, not a list
    elif r < 0.32:
        body = []                                         # a document without statements
    else:
        body = [statement(rng, sids, with_sid=rng.random() < 0.9) for _ in range(rng.choice([1, 1, 2, 3]))]
    d = {"Statement": body}
    if rng.random() < 0.6:
        d = {"Version": "2012-10-17", **d}
    if rng.random() < 0.15:
        d["Id"] = "id-" + sids.next()
    if rng.random() < 0.15:
        d["ExtraKey"] = rng.choice(["x", 1, {"a": 1}, ["y"]])   # PolicyDocument allows extra keys
    return d


def wrapper(rng, sids):
    return {"PolicyName": "name-" + sids.next(), "PolicyDocument": document(rng, sids)}


def lookalike(rng, sids):
    r = rng.random()
    if r < 0.2:
        return statement(rng, sids)                                            # a lone Statement
    if r < 0.35:
        return {"Statement": []}                                               # IS a (statement-less) document
    if r < 0.5:
        return {"Statement": [{"Sid": sids.next(), "Effect": "Nope"}]}         # invalid Effect: not a document
    if r < 0.65:
        return {**wrapper(rng, sids), "Extra": 1}                              # wrapper with an extra key: inner document, unnamed
    if r < 0.75:
        return {"PolicyName": "lonely"}
    if r < 0.85:
        return {"Statements": [statement(rng, sids)]}
    if r < 0.93:
        return {"Statement": "Allow"}
    return {"PolicyDocument": document(rng, sids)}                             # no PolicyName: generic object holding a document


def tree(rng, depth):
    """a filler container tree with room for placements"""
    r = rng.random()
    if depth <= 0 or r < 0.3:
        return copy.deepcopy(rng.choice(FILLER))
    if r < 0.6:
        return [tree(rng, depth - 1) for _ in range(rng.choice([0, 1, 2, 3]))]
    return {k: tree(rng, depth - 1) for k in rng.sample(KEYS, rng.choice([1, 2, 3]))}


def containers(v, path=()):
    if isinstance(v, list):
        yield v, path
        for i, x in enumerate(v):
            yield from containers(x, path + (i,))
    elif isinstance(v, dict) and not go_recognised(v):
        yield v, path
        for k, x in v.items():
            yield from containers(x, path + (k,))


def go_recognised(v):
    return isinstance(v, dict) and (set(v) == {"Key", "Value"} or (len(v) == 1 and next(iter(v)) in funcs()))


def place(rng, root, item):
    """insert item into a random list / object of the tree (never inside a recognised model or function)"""
    cs = [c for c, p in containers(root) if len(p) < 6]
    c = rng.choice(cs)
    if isinstance(c, list):
        c.insert(rng.randrange(len(c) + 1), item)
    else:
        free = [k for k in KEYS if k not in c]
        if not free:
            return place(rng, root, item) if len(cs) > 1 else None
        c[rng.choice(free)] = item
    return True


def encode(rng, item):
    """JSON-encode a document / wrapper itself (top level of the string)"""
    r = rng.random()
    if r < 0.7:
        return json.dumps(item)
    if r < 0.85:
        return "  " + json.dumps(item, indent=1) + "\n"
    return json.dumps([json.dumps(item)])          # JSON list of strings, each of which is JSON text: members are cast again


def payload(rng, sids, hidden=False):
    """the things to place: (item, is_hidden_construct)"""
    items = []
    for _ in range(rng.choice([0, 1, 1, 2, 2, 3, 4])):
        r = rng.random()
        it = wrapper(rng, sids) if r < 0.3 else document(rng, sids)
        if rng.random() < 0.3:
            it = encode(rng, it)
        items.append(it)
    if items and not hidden and rng.random() < 0.15:
        # the SAME document or named wrapper embedded twice (a shared policy attached in two places): two positions, two documents --
        # "exactly once" is per position, equal content is not a duplicate (seeded change C13-r8m1 collapsed equal named wrappers)
        items.append(copy.deepcopy(rng.choice(items)))
    for _ in range(rng.choice([0, 0, 1, 2])):
        items.append(lookalike(rng, sids))
    if hidden:
        r = rng.random()
        d = wrapper(rng, sids) if rng.random() < 0.3 else document(rng, sids)
        if r < 0.35:
            items.append(json.dumps({rng.choice(KEYS): d}))                       # below the top level of a JSON-encoded object
        elif r < 0.6:
            items.append(json.dumps([d] + ([document(rng, sids)] if rng.random() < 0.5 else [])))   # JSON-encoded list of documents
        elif r < 0.8:
            items.append(json.dumps({"A": {"B": [1, d]}}))
        else:
            items.append(json.dumps({"Y": json.dumps({"Z": d})}))                # nested twice
    return items


def generic_props(rng, sids, hidden=False):
    root = {k: tree(rng, rng.choice([0, 1, 2, 3, 4])) for k in rng.sample(KEYS, rng.choice([1, 2, 3, 4]))}
    for it in payload(rng, sids, hidden):
        place(rng, root, it)
    return root


TYPE_NAMES = ["Custom::Thing", "AWS::Logs::ResourcePolicy", "AWS::Lambda::Function", "AWS::WAFv2::WebACL", "AWS::ECR::Repository",
              "AWS::SecretsManager::ResourcePolicy", "Some::Other::Type", "AWS::IAM::InstanceProfile", "X::Y::Z"]

TYPED_BASE = {
    "AWS::EC2::VPCEndpoint": {"ServiceName": "com.amazonaws.eu-west-1.s3", "VpcId": "vpc-1"},
    "AWS::Elasticsearch::Domain": {"DomainName": "d"},
    "AWS::IAM::Group": {"GroupName": "g"},
    "AWS::IAM::ManagedPolicy": {"Description": "d"},
    "AWS::IAM::Policy": {"PolicyName": "pol", "Roles": ["r"]},
    "AWS::IAM::Role": {"Path": "/"},
    "AWS::IAM::User": {"UserName": "u", "LoginProfile": {"Password": "p"}},
    "AWS::KMS::Key": {"Description": "k", "Enabled": True},
    "AWS::OpenSearchService::Domain": {"DomainName": "d"},
    "AWS::RDS::DBSecurityGroup": {"DBSecurityGroupIngress": [{"CIDRIP": "10.0.0.0/24"}], "GroupDescription": "d"},
    "AWS::RDS::DBSecurityGroupIngress": {"DBSecurityGroupName": "n", "CIDRIP": "10.0.0.1/32"},
    "AWS::S3::Bucket": {"BucketName": "b"},
    "AWS::S3::BucketPolicy": {"Bucket": "b"},
    "AWS::EC2::SecurityGroup": {"GroupDescription": "d", "SecurityGroupIngress": [{"IpProtocol": "tcp", "CidrIp": "10.0.0.0/24", "FromPort": 22, "ToPort": 22}]},
    "AWS::EC2::SecurityGroupEgress": {"GroupId": "sg-1", "IpProtocol": "tcp", "CidrIp": "10.0.0.0/24"},
    "AWS::EC2::SecurityGroupIngress": {"GroupId": "sg-1", "IpProtocol": "-1", "CidrIpv6": "fe80::/120"},
    "AWS::SNS::TopicPolicy": {"Topics": ["arn:aws:sns:eu-west-1:123456789012:t"]},
    "AWS::SQS::QueuePolicy": {"Queues": ["https://sqs.eu-west-1.amazonaws.com/123456789012/q"]},
}
def live_types():
    """the modelled type strings of the LIVE schema (the 18 above + any modelled since)"""
    return set(schema_paths())


def typed_base(t, rng):
    """a valid Properties object of modelled type t WITHOUT its document-typed fields: by hand for the 18 classes this file was written
    against, drawn from the live schema (schemagen) for a class modelled since"""
    if t in TYPED_BASE:
        return copy.deepcopy(TYPED_BASE[t])
    g = schemagen.Gen(random.Random(f"c13-base/{t}/{rng.random()}"), fn_rate=0.0, opt_rate=0.3)
    res = g.resource((), type_string=t)
    props = res.get("Properties") or {}
    for path, _ in schema_paths()[t]:
        props.pop(path[:-2] if path.endswith("[]") else path, None)
    return props


def required_doc_fields(t):
    if t in REQUIRED_DOC:
        return {REQUIRED_DOC[t]}
    if t in TYPED_BASE:
        return set()
    cls = dict(schemagen.table()["modelled"])[t]
    pf = [f for f in schemagen.table()["classes"][cls]["fields"] if f[0] == "Properties"]
    names = set()

    def models_in(ty):
        if isinstance(ty, (list, tuple)):
            if len(ty) == 2 and ty[0] == "model":
                names.add(ty[1])
            for z in ty:
                models_in(z)
    if pf:
        models_in(pf[0][3])
    req = set()
    for n in names:
        for f in schemagen.table()["classes"].get(n, {}).get("fields", []):
            if f[1] == "DRequired":
                req.add(f[0])
    return req


REQUIRED_DOC = {"AWS::IAM::ManagedPolicy": "PolicyDocument", "AWS::IAM::Policy": "PolicyDocument", "AWS::IAM::Role": "AssumeRolePolicyDocument",
                "AWS::S3::BucketPolicy": "PolicyDocument", "AWS::SNS::TopicPolicy": "PolicyDocument", "AWS::SQS::QueuePolicy": "PolicyDocument"}
_PATHS = None


def schema_paths():
    """document / wrapper / Generic typed paths of the LIVE classes (the same walk that writes gen/PdPaths.v)"""
    global _PATHS
    if _PATHS is None:
        import gen_tables
        _PATHS = gen_tables.live_or_snapshot("pd_paths", lambda: {"paths": gen_tables.gen_schema_pd_paths()["paths"]})["paths"]
    return _PATHS


def typed_props(rng, sids, t):
    props = typed_base(t, rng)
    for path, kind in schema_paths()[t]:
        field, is_list = (path[:-2], True) if path.endswith("[]") else (path, False)
        if "." in field:
            raise RuntimeError(f"nested schema path {path}: extend typed_props")
        required = field in required_doc_fields(t)
        if not required and rng.random() < 0.35:
            continue
        if kind == "Doc":
            props[field] = document(rng, sids)
        elif kind == "Policy":
            props[field] = [wrapper(rng, sids) for _ in range(rng.choice([0, 1, 2, 3]))]
        elif kind == "Generic":
            def one():
                root = {k: tree(rng, rng.choice([0, 1, 2])) for k in rng.sample(KEYS, rng.choice([1, 2]))}
                for it in payload(rng, sids)[:2]:
                    place(rng, root, it)
                return root
            if is_list:
                props[field] = [one() for _ in range(rng.choice([1, 2]))]
            elif rng.random() < 0.5:
                props[field] = one()
        else:
            raise RuntimeError(f"unknown kind {kind}")
    if t == "AWS::IAM::ManagedPolicy" and rng.random() < 0.5:
        props["ManagedPolicyName"] = "managed-" + sids.next()
    return props


def describe_tags(x):
    t = set()
    if not isinstance(x, dict) or "props" not in x:
        return t
    k = key(x["props"])
    t.add("typed" if x.get("type") in live_types() else "generic")
    if "PolicyName" in k:
        t.add("named-wrapper")
    if '\\"Statement\\"' in k:
        t.add("json-encoded")
    if '"Statement": {' in k:
        t.add("single-statement")
    if '"Statement": []' in k:
        t.add("no-statements")
    if "Condition" in k:
        t.add("condition")
    if "Nope" in k or "lonely" in k or "Statements" in k:
        t.add("lookalike")
    n = k.count('Statement\\"') + k.count('"Statement"')
    t.add("docs:%d" % min(n, 5))
    return t


def corpus():
    p = core.VERIF / "corpus" / "C13.json"
    if p.exists():
        for c in json.loads(p.read_text()):
            yield SURFACES[c["surface"]], c["input"]


def cases(rng, tier, shard, nshards):
    if shard == 0:
        yield from corpus()
    n = {"quick": 900, "thorough": 14000}[tier]
    types = sorted(live_types())
    if shard == 0:
        # every modelled type with each of its document positions holding the DEGENERATE documents: no statements at all, one bare
        # statement, a wrapper list of length 0 / 1 (seeded change C13-r6Am2: PolicyDocument.__len__ made a statement-less document
        # falsy, and one resource class tests `if not self.Properties.PolicyDocument`)
        for t in types:
            for variant in ("empty", "single"):
                sids = Sids(rng)
                props = typed_base(t, rng)
                for path, kind in schema_paths()[t]:
                    field = path[:-2] if path.endswith("[]") else path
                    body = [] if variant == "empty" else statement(rng, sids)
                    if kind == "Doc":
                        props[field] = {"Version": "2012-10-17", "Statement": body}
                    elif kind == "Policy":
                        props[field] = [] if (variant == "empty" and rng.random() < 0.5) else \
                            [{"PolicyName": "name-" + sids.next(), "PolicyDocument": {"Statement": body}}]
                yield TYPED, {"type": t, "props": props}
    for k in range(n):
        sids = Sids(rng)
        if k % 3 == 0:
            t = types[(k // 3 + shard) % len(types)]
            yield TYPED, {"type": t, "props": typed_props(rng, sids, t)}
            continue
        x = {"type": rng.choice(schemagen.unmodelled(TYPE_NAMES)), "props": generic_props(rng, sids)}
        yield SPEC, x
        if k % 3 == 1:
            yield COND, x
        else:
            yield IMPL, x
        if k % 150 == 2:
            # deliberate F16 stream: the code's reading still agrees with the faithful model; the property's reading does not
            y = {"type": rng.choice(schemagen.unmodelled(TYPE_NAMES)), "props": generic_props(rng, Sids(rng), hidden=True)}
            yield IMPL, y
            yield SPEC, y


def reproduce_known(f):
    """does the recorded witness still diverge from the property's reading on this tree?"""
    if f["id"] != "F16":
        return None
    rn = core.Runner()
    try:
        x = f["witness"]["input"]
        i, m = SPEC.impl(x), SPEC.model(rn, x)
        j, mm = IMPL.impl(x), IMPL.model(rn, x)
        return (not SPEC.agree(x, i, m)) and IMPL.agree(x, j, mm) and SPEC.tags(x) == set(f["signature"]["tags"])
    finally:
        rn.close()
