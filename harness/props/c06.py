"""C06 -- transformations are pure and repeatable: histories of public-API calls over shared, re-used objects."""
import copy
import json
import os
import re
import select
import sys
import threading

import core
import resgen
import tplgen
import wire

ID = "C06"
TABLES = []
BUDGET = {"quick": (4, 42), "thorough": (16, 400)}
EXHAUSTIVE = {"quick": False, "thorough": False}
RULE = ("histories of 2-30 public-API calls (parse, resolve, expand_actions, 7 policy / resource queries, condition __call__ / eval, "
        "resolver.resolve) over a pool of 1-4 parsed models built from tplgen templates, condition-graph templates and hand-written "
        "templates (Fn::Sub local maps, list / NoEcho / SSM parameters, IAM policies with Condition blocks; one history in five adds a policy that uses the "
        "SAME wildcard text as an action pattern and as a case-sensitive condition value, queried in both roles in random order), with SHARED argument objects "
        "(one extra_params dict passed to many resolves, one template dict parsed repeatedly, one context dict evaluated by many conditions) "
        "and CHAINED receivers (results of earlier calls).  Around every call: deep snapshots of every pool object, the receiver, "
        "PSEUDO_PARAMETERS, CLOUDFORMATION_ACTIONS, GenericResource._strict, Parameter.NO_ECHO_*; every result is compared with the same call on "
        "fresh deep copies in a pristine forked process, with the 4-thread barrier-started replay on shared objects, and within the history "
        "with every earlier call the model says is the same call; resolve / expand_actions results are checked to be new objects sharing no "
        "dict / list / model object with their receiver.  non-trivial = at least two calls were executed; distinct by hash of the history.")
ASSUMPTIONS = [
    "thread safety is PARTIAL: 4 threads, barrier start, switch interval 10 us, one sampled schedule per history; the CPython scheduler is not "
    "modelled (C06_commute / C06_interleaving speak about interleavings of whole modelled calls)",
    "the private _eval attribute of StatementCondition is not part of model_dump and is excluded from every snapshot (C06_cache_transparent)",
    "parse(t) is checked for not modifying t; it may share leaf containers of Any-typed fields (Metadata, Mappings leaves, Parameter.Default) "
    "with t -- the property demands new models of resolve and expand_actions only",
    "pydantic, re, copy are leaf oracles; exceptions are compared by class name",
]
MODELLED = ("the reads / writes of parse, CFModel.resolve, resolver.resolve_sub, expand_actions, the queries and StatementCondition.eval on mutable "
            "objects are modelled by hand (Purity/Api.v over the heap of Purity/Heap.v); the values they compute are abstracted (theorems hold "
            "for every value semantics; the runner uses the symbolic semantics Purity/Sym.v).  The tie is observational: what the implementation "
            "mutates and which results coincide, against what the model run predicts (nothing; same call => same result).  Not modelled: "
            "laziness of Fn::If, on-demand order of condition resolution, exceptions in the middle of a call, the thread scheduler")
TRUSTED_EXTRA = ["os.fork (pristine replay process), threading, copy.deepcopy, json canonicalisation of snapshots"]

QUERIES = ["policy_documents", "all_statement_conditions", "allowed_actions", "iam_actions", "allowed_principals_with",
           "non_whitelisted", "filtered_by_type", "statement_lists"]
CHEAP_QUERIES = ["policy_documents", "all_statement_conditions", "allowed_principals_with", "non_whitelisted", "filtered_by_type",
                 "statement_lists", "statement_lists"]
PATTERNS = ["^arn:", ".*", "root$", "^$"]
GLOBAL_NAMES = ("CFModel.PSEUDO_PARAMETERS", "CLOUDFORMATION_ACTIONS", "GenericResource._strict", "Parameter.NO_ECHO_*")
OPS = ("parse", "resolve", "expand", "query", "cond", "expr")


# --------------------------------------------------------------------------------------------------
# canonical snapshots

def canon_json(v):
    return json.dumps(wire.jsonable(resgen.to_wire(v)), sort_keys=True, default=str)


def snap(o):
    """deep snapshot of a pool object or model as canonical JSON (private attributes such as _eval are not part of model_dump)"""
    if o is None:
        return "null"
    try:
        if hasattr(o, "model_dump"):
            return canon_json(o.model_dump())
        return canon_json(o)
    except Exception as e:  # noqa  (an object damaged so badly that it cannot be dumped any more)
        return "UNSNAPSHOTTABLE:" + type(e).__name__


def globals_snapshot():
    from pycfmodel.cloudformation_actions import CLOUDFORMATION_ACTIONS
    from pycfmodel.model.cf_model import CFModel
    from pycfmodel.model.parameter import Parameter
    from pycfmodel.model.resources.generic_resource import GenericResource
    import pycfmodel.action_expander as ae
    return {
        "CFModel.PSEUDO_PARAMETERS": canon_json(CFModel.PSEUDO_PARAMETERS),
        "CLOUDFORMATION_ACTIONS": f"{len(CLOUDFORMATION_ACTIONS)}:{hash(tuple(CLOUDFORMATION_ACTIONS))}:{ae.CLOUDFORMATION_ACTIONS is CLOUDFORMATION_ACTIONS}",
        "GenericResource._strict": repr(GenericResource._strict),
        "Parameter.NO_ECHO_*": repr((Parameter.NO_ECHO_NO_DEFAULT, Parameter.NO_ECHO_WITH_DEFAULT, Parameter.NO_ECHO_WITH_VALUE)),
    }


_BaseModel = None


_PRISTINE = {}


def remember_globals():
    """called before this process executed any pycfmodel function"""
    from pycfmodel.model.cf_model import CFModel
    from pycfmodel.model.resources.generic_resource import GenericResource
    if not _PRISTINE:
        _PRISTINE["pseudo"] = copy.deepcopy(CFModel.PSEUDO_PARAMETERS)
        _PRISTINE["strict"] = GenericResource._strict


def restore_globals():
    """after a history in which a class-level default was seen to change (and was reported): put the known ones back, so that the
    following histories are judged on their own"""
    from pycfmodel.model.cf_model import CFModel
    from pycfmodel.model.resources.generic_resource import GenericResource
    if _PRISTINE:
        CFModel.PSEUDO_PARAMETERS.clear()
        CFModel.PSEUDO_PARAMETERS.update(copy.deepcopy(_PRISTINE["pseudo"]))
        GenericResource._strict = _PRISTINE["strict"]


def containers(o, acc=None):
    """ids of the mutable containers (dict, list, set, pydantic models) reachable from o"""
    global _BaseModel
    if _BaseModel is None:
        from pydantic import BaseModel
        _BaseModel = BaseModel
    BaseModel = _BaseModel
    acc = {} if acc is None else acc
    if isinstance(o, (dict, list, set, BaseModel)):
        if id(o) in acc:
            return acc
        acc[id(o)] = o
        if isinstance(o, dict):
            for v in o.values():
                containers(v, acc)
        elif isinstance(o, (list, set)):
            for v in o:
                containers(v, acc)
        else:
            for v in o.__dict__.values():
                containers(v, acc)
            if o.__pydantic_extra__:
                for v in o.__pydantic_extra__.values():
                    containers(v, acc)
    elif isinstance(o, tuple):
        for v in o:
            containers(v, acc)
    return acc


# --------------------------------------------------------------------------------------------------
# executing one call

class Skip(Exception):
    pass


def all_conds(m):
    out = []
    for rid in m.Resources:
        r = m.Resources[rid]
        if hasattr(r, "all_statement_conditions"):
            out += list(r.all_statement_conditions)
    return out


def docs_of(m):
    out = []
    for rid in m.Resources:
        r = m.Resources[rid]
        if hasattr(r, "policy_documents"):
            for pd in r.policy_documents:
                out.append((rid, pd))
    return out


def do_query(q, m, arg, wl):
    if q == "policy_documents":
        return [[rid, pd.name, pd.policy_document] for rid, pd in docs_of(m)]
    if q == "all_statement_conditions":
        return all_conds(m)
    if q == "allowed_actions":
        return [[rid, _try(pd.policy_document.get_allowed_actions)] for rid, pd in docs_of(m)]
    if q == "iam_actions":
        return [[rid, _try(pd.policy_document.get_iam_actions)] for rid, pd in docs_of(m)]
    if q == "allowed_principals_with":
        pat = re.compile(PATTERNS[arg % len(PATTERNS)])
        return [[rid, _try(lambda: pd.policy_document.allowed_principals_with(pat))] for rid, pd in docs_of(m)]
    if q == "non_whitelisted":
        return [[rid, _try(lambda: pd.policy_document.non_whitelisted_allowed_principals(wl))] for rid, pd in docs_of(m)]
    if q == "filtered_by_type":
        return m.resources_filtered_by_type(wl)
    if q == "statement_lists":
        # the statement-level getters hand out lists assembled from the model's own members (Action + NotAction, Resource +
        # NotResource, Principal + NotPrincipal): asking must not grow those members (seeded change C06-r4m1 returned the model's
        # own Action list and appended the NotAction entries to it, so every query lengthened the statement)
        pat = re.compile(PATTERNS[arg % len(PATTERNS)])
        out = []
        for rid, pd in docs_of(m):
            for st in pd.policy_document.statement_as_list():
                out.append([rid, _try(st.get_action_list), _try(st.get_resource_list), _try(st.get_principal_list),
                            _try(lambda: st.actions_with(pat)), _try(lambda: st.resources_with(pat)), _try(lambda: st.principals_with(pat))])
            out.append([rid, _try(lambda: [x.Sid for x in pd.policy_document.statements_with(pat)])])
        return out
    raise Skip()


def _try(f):
    try:
        return f()
    except Exception as e:  # noqa
        return "EXC:" + type(e).__name__


def valid_calls(x):
    """well-formed call records with distinct ids (the shrinker may damage records: a damaged or duplicate one is no call)"""
    seen, out = set(), []
    for c in x.get("calls", []) if isinstance(x.get("calls", []), list) else []:
        if isinstance(c, dict) and c.get("op") in OPS and isinstance(c.get("id"), int) and not isinstance(c.get("id"), bool) \
                and c["id"] not in seen:
            seen.add(c["id"])
            out.append(c)
    return out


class Pool:
    """the objects of one history.  shared=True: one object per pool entry, re-used by every call that names it;
    shared=False (pristine replay): every call gets fresh deep copies of its arguments and a freshly parsed / copied receiver"""

    def __init__(self, x, shared=True):
        import pycfmodel
        self.x = x
        self.shared = shared
        self.templates = copy.deepcopy(x.get("templates", []))
        self.eps = copy.deepcopy(x.get("eps", []))
        self.ctxs = copy.deepcopy(x.get("ctxs", []))
        self.wls = copy.deepcopy(x.get("wls", []))
        self.exprs = copy.deepcopy(x.get("exprs", []))
        self.models = []
        for t in self.templates:
            try:
                self.models.append(pycfmodel.parse(t))
            except Exception:  # noqa
                self.models.append(None)

    def named(self):
        """name -> object, for every pool object that calls may share"""
        out = {}
        for kind in ("templates", "eps", "ctxs", "wls", "exprs"):
            for i, o in enumerate(getattr(self, kind)):
                out[f"{kind}[{i}]"] = o
        for i, m in enumerate(self.models):
            out[f"M[{i}]"] = m
        return out

    def pick(self, kind, i):
        l = getattr(self, kind)
        if not isinstance(i, int) or isinstance(i, bool) or not l:
            raise Skip()
        o = l[i % len(l)]
        return o if self.shared else copy.deepcopy(o)

    def receiver(self, ref, results):
        import pycfmodel
        if not (isinstance(ref, list) and len(ref) == 2):
            raise Skip()
        if ref[0] == "M":
            if not self.models or not isinstance(ref[1], int):
                raise Skip()
            i = ref[1] % len(self.models)
            if self.models[i] is None:
                raise Skip()
            return self.models[i] if self.shared else pycfmodel.parse(copy.deepcopy(self.templates[i]))
        if ref[0] == "R":
            r = results.get(ref[1])
            if r is None or not hasattr(r, "resolve"):
                raise Skip()
            return r if self.shared else copy.deepcopy(r)
        raise Skip()


def perform(pool, c, results):
    """-> (receiver or None, [(name, argument object)], thunk).  Raises Skip for a call that cannot be made."""
    import pycfmodel
    from pycfmodel.resolver import resolve as resolve_expr
    if not isinstance(c, dict) or c.get("op") not in OPS or not isinstance(c.get("id"), int):
        raise Skip()
    op = c["op"]
    if op == "parse":
        t = pool.pick("templates", c.get("t"))
        return None, [t], lambda: pycfmodel.parse(t)
    if op == "expr":
        e = pool.pick("exprs", c.get("e"))
        if not (isinstance(e, dict) and "expr" in e):
            raise Skip()
        ps = pool.pick("eps", c.get("ps"))
        if ps is None:
            raise Skip()
        return None, [e, ps], lambda: resolve_expr(e["expr"], ps, e.get("mappings", {}), e.get("conds", {}))
    m = pool.receiver(c.get("m"), results)
    if op == "resolve":
        if c.get("ep") is None:
            return m, [], lambda: m.resolve()
        ep = pool.pick("eps", c.get("ep"))
        return m, [ep], lambda: m.resolve(ep)
    if op == "expand":
        return m, [], lambda: m.expand_actions()
    if op == "query":
        q = c.get("q")
        wl = pool.pick("wls", c.get("arg", 0)) if q in ("non_whitelisted", "filtered_by_type") else None
        arg = c.get("arg", 0) if isinstance(c.get("arg", 0), int) else 0
        return m, ([wl] if wl is not None else []), lambda: do_query(q, m, arg, wl)
    if op == "cond":
        conds = all_conds(m)
        if not conds or not isinstance(c.get("k"), int):
            raise Skip()
        cond = conds[c["k"] % len(conds)]
        ctx = pool.pick("ctxs", c.get("ctx"))
        if c.get("via") == "eval":
            return m, [ctx], lambda: cond.eval(ctx)
        return m, [ctx], lambda: cond(ctx)
    raise Skip()


def perform_safe(pool, c, results):
    """perform, but a receiver damaged by an earlier call (its attributes raise) makes the call fail instead of the harness"""
    try:
        return perform(pool, c, results)
    except Skip:
        raise
    except Exception as e:  # noqa
        def fail(e=e):
            raise e
        return None, [], fail


def outcome(thunk):
    try:
        return thunk(), None
    except RecursionError:
        return None, "EXC:RecursionError"
    except Exception as e:  # noqa
        return None, "EXC:" + type(e).__name__


def canon_result(r, exc):
    if exc:
        return exc
    try:
        return snap(r) if hasattr(r, "model_dump") else canon_json(r)
    except Exception as e:  # noqa
        return "UNSNAPSHOTTABLE:" + type(e).__name__


def run_plain(x, shared):
    """results only: {call id: canonical result}"""
    pool = Pool(x, shared=shared)
    results, out = {}, {}
    for c in valid_calls(x):
        try:
            _, _, thunk = perform_safe(pool, c, results)
        except Skip:
            continue
        r, exc = outcome(thunk)
        if exc is None and c["op"] in ("parse", "resolve", "expand"):
            results[c["id"]] = r
        out[c["id"]] = canon_result(r, exc)
    return pool, out


def run_observed(x):
    """sequential run on shared objects with snapshots around every call"""
    pool = Pool(x, shared=True)
    results, res_snap = {}, {}
    out = {"results": {}, "mutations": {}, "identity": {}, "executed": []}
    named = pool.named()
    before = {n: snap(o) for n, o in named.items()}
    gbefore = globals_snapshot()
    for c in valid_calls(x):
        try:
            recv, args, thunk = perform_safe(pool, c, results)
        except Skip:
            continue
        cid = c["id"]
        rsnap = snap(recv) if recv is not None else None
        asnaps = [snap(a) for a in args]
        r, exc = outcome(thunk)
        muts = []
        if recv is not None and snap(recv) != rsnap:
            muts.append("receiver")
        for k, a in enumerate(args):
            if snap(a) != asnaps[k]:
                muts.append(f"argument {k}")
        for n, o in named.items():
            s2 = snap(o)
            if s2 != before[n]:
                muts.append(n)
                before[n] = s2
        g2 = globals_snapshot()
        for n in g2:
            if g2[n] != gbefore[n]:
                muts.append(n)
        gbefore = g2
        for k2, (r2, s2) in res_snap.items():
            if r2 is not recv and snap(r2) != s2:
                muts.append(f"result of call {k2}")
                res_snap[k2] = (r2, snap(r2))
        if recv is not None:
            for k2, (r2, s2) in list(res_snap.items()):
                if r2 is recv:
                    res_snap[k2] = (r2, snap(r2))
        if muts:
            out["mutations"][cid] = sorted(set(muts))
        if exc is None and c["op"] in ("resolve", "expand"):
            ident = []
            if r is recv:
                ident.append("result is the receiver")
            shared = set(containers(r)) & set(containers(recv))
            if shared:
                ident.append(f"shares {len(shared)} container(s) with the receiver")
            if ident:
                out["identity"][cid] = ident
        if exc is None and c["op"] in ("parse", "resolve", "expand"):
            results[cid] = r
            res_snap[cid] = (r, snap(r))
        out["results"][cid] = canon_result(r, exc)
        out["executed"].append(cid)
    return out


def run_threads(x, n=4):
    """the same history from n threads at once on ONE pool of shared objects"""
    pool = Pool(x, shared=True)
    before = {k: snap(o) for k, o in pool.named().items()}
    gbefore = globals_snapshot()
    barrier = threading.Barrier(n)
    outs = [None] * n

    def work(i):
        results, out = {}, {}
        try:
            barrier.wait(timeout=10)
        except threading.BrokenBarrierError:
            pass
        for c in valid_calls(x):
            try:
                _, _, thunk = perform_safe(pool, c, results)
            except Skip:
                continue
            r, exc = outcome(thunk)
            if exc is None and c["op"] in ("parse", "resolve", "expand"):
                results[c["id"]] = r
            out[c["id"]] = canon_result(r, exc)
        outs[i] = out

    old = sys.getswitchinterval()
    sys.setswitchinterval(5e-5)
    try:
        ts = [threading.Thread(target=work, args=(i,), daemon=True) for i in range(n)]
        for t in ts:
            t.start()
        for t in ts:
            t.join(timeout=60)
    finally:
        sys.setswitchinterval(old)
    muts = sorted(k for k, o in pool.named().items() if snap(o) != before[k])
    g2 = globals_snapshot()
    muts += sorted(k for k in g2 if g2[k] != gbefore[k])
    return outs, muts


# --------------------------------------------------------------------------------------------------
# pristine replay process: a zygote forked before this process executed any pycfmodel call; it forks one
# worker per history, which replays the history with fresh copies for every call and dies

class Zygote:
    def __init__(self):
        req_r, req_w = os.pipe()
        res_r, res_w = os.pipe()
        pid = os.fork()
        if pid == 0:
            try:
                os.close(req_w)
                os.close(res_r)
                keep = {0, 1, 2, req_r, res_w}
                for fd in range(3, 256):
                    if fd not in keep:
                        try:
                            os.close(fd)
                        except OSError:
                            pass
                self._serve(req_r, res_w)
            finally:
                os._exit(0)
        os.close(req_r)
        os.close(res_w)
        self.pid, self.w, self.r = pid, os.fdopen(req_w, "w"), os.fdopen(res_r, "r")

    @staticmethod
    def _serve(req_r, res_w):
        import signal
        signal.signal(signal.SIGALRM, signal.SIG_DFL)
        signal.setitimer(signal.ITIMER_REAL, 0)
        rf = os.fdopen(req_r, "r")
        for line in rf:
            child = os.fork()
            if child == 0:
                try:
                    signal.alarm(60)
                    x = json.loads(line)
                    _, out = run_plain(x, shared=False)
                    msg = json.dumps({str(k): v for k, v in out.items()})
                except BaseException as e:  # noqa
                    msg = json.dumps({"__error__": repr(e)[:300]})
                os.write(res_w, (msg + "\n").encode())
                os._exit(0)
            _, status = os.waitpid(child, 0)
            if status != 0:
                os.write(res_w, (json.dumps({"__error__": f"worker status {status}"}) + "\n").encode())

    def replay(self, x):
        self.w.write(json.dumps(wire.jsonable(x)) + "\n")
        self.w.flush()
        ready, _, _ = select.select([self.r], [], [], 90)
        if not ready:
            return {"__error__": "pristine worker timed out"}
        line = self.r.readline()
        if not line:
            return {"__error__": "pristine worker died"}
        return json.loads(line)

    def close(self):
        try:
            self.w.close()
            os.waitpid(self.pid, 0)
        except Exception:  # noqa
            pass


_Z = None


def zygote():
    global _Z
    if _Z is None:
        import pycfmodel  # noqa: imported (never called) before the fork, so that workers do not pay for the import
        import pycfmodel.resolver  # noqa
        import pycfmodel.action_expander  # noqa
        remember_globals()
        _Z = Zygote()
        import atexit
        atexit.register(_Z.close)
    return _Z


def prepare(rn):
    zygote()      # forked here: this process has imported pycfmodel but not yet executed any of its functions


# --------------------------------------------------------------------------------------------------
# model side: encode the history for Run/R06.v

def prune(v):
    """drop None members (a StatementCondition dumps ~230 absent operators)"""
    if isinstance(v, dict):
        return {k: prune(z) for k, z in v.items() if z is not None}
    if isinstance(v, list):
        return [prune(z) for z in v]
    return v


class Encoder:
    def __init__(self, pool):
        from pycfmodel.cloudformation_actions import CLOUDFORMATION_ACTIONS
        from pycfmodel.model.cf_model import CFModel
        from pycfmodel.model.resources.generic_resource import GenericResource
        self.objs = []          # [id, members]
        self.owner = {}         # id -> pool name
        self.ids = {}           # pool name -> id
        self.conds = {}         # (model index) -> [cond ids]
        self.next = 10
        self.objs.append([1, resgen.to_wire(dict(CFModel.PSEUDO_PARAMETERS))])
        self.objs.append([2, {"n": len(CLOUDFORMATION_ACTIONS), "h": str(hash(tuple(CLOUDFORMATION_ACTIONS)))}])
        self.objs.append([3, {"_strict": bool(GenericResource._strict)}])
        self.owner.update({1: "CFModel.PSEUDO_PARAMETERS", 2: "CLOUDFORMATION_ACTIONS", 3: "GenericResource._strict"})
        for i, t in enumerate(pool.templates):
            self.ids[f"templates[{i}]"] = self.nested(f"templates[{i}]", resgen.to_wire(t), ("Parameters", "Conditions", "Resources", "Mappings"))
        for kind in ("eps", "ctxs"):
            for i, o in enumerate(getattr(pool, kind)):
                if isinstance(o, dict):
                    self.ids[f"{kind}[{i}]"] = self.flat(f"{kind}[{i}]", resgen.to_wire(o))
        for i, m in enumerate(pool.models):
            if m is None:
                continue
            name = f"M[{i}]"
            d = prune(resgen.to_wire(m.model_dump()))
            cids = [self.flat(name, prune(resgen.to_wire(c.model_dump()))) for c in all_conds(m)]
            self.conds[i] = cids
            d["$conds"] = {"$ref": self.flat(name, {str(k): {"$ref": c} for k, c in enumerate(cids)})}
            # Mappings: name/top/second -> leaf; a list / dict leaf is an object of its own (it can be shared)
            leaves = {}
            for mn, tops in (d.get("Mappings") or {}).items():
                for tk, seconds in (tops or {}).items():
                    for sk, leaf in (seconds or {}).items():
                        if isinstance(leaf, list):
                            leaf = {"$ref": self.flat(name, {str(j): v for j, v in enumerate(leaf)})}
                        elif isinstance(leaf, dict):
                            leaf = {"$ref": self.flat(name, leaf)}
                        leaves[f"{mn}/{tk}/{sk}"] = leaf
            d["Mappings"] = {"$ref": self.flat(name, leaves)}
            self.ids[name] = self.nested(name, d, ("Conditions", "Resources"))

    def fresh(self, name):
        self.next += 1
        self.owner[self.next] = name
        return self.next

    def flat(self, name, members):
        i = self.fresh(name)
        self.objs.append([i, members])
        return i

    def nested(self, name, d, children):
        d = dict(d)
        for k in children:
            if isinstance(d.get(k), dict):
                d[k] = {"$ref": self.flat(name, d[k])}
        return self.flat(name, d)


def encode(x):
    """-> (runner argument, encoder, executed call ids in runner order)"""
    pool = Pool(x, shared=True)
    enc = Encoder(pool)
    calls, order, pos, supported = [], [], {}, set()
    nm, nt = len(pool.models), len(pool.templates)

    def href(ref):
        if not (isinstance(ref, list) and len(ref) == 2 and isinstance(ref[1], int)):
            return None
        if ref[0] == "M" and nm:
            return enc.ids.get(f"M[{ref[1] % nm}]")
        if ref[0] == "R" and ref[1] in pos and ref[1] in supported:
            return [pos[ref[1]]]
        return None

    def pid(kind, i):
        l = getattr(pool, kind)
        if not isinstance(i, int) or isinstance(i, bool) or not l:
            return None
        return enc.ids.get(f"{kind}[{i % len(l)}]")

    for c in valid_calls(x):
        op, rec = c["op"], None
        if op == "parse":
            t = pid("templates", c.get("t"))
            rec = [1, t, None] if t is not None else None
        elif op == "resolve":
            h = href(c.get("m"))
            no_ep = c.get("ep") is None or (isinstance(c.get("ep"), int) and pool.eps and pool.eps[c["ep"] % len(pool.eps)] is None)
            ep = None if no_ep else pid("eps", c.get("ep"))
            if h is not None and (no_ep or ep is not None):
                rec = [2, h, ep]
        elif op == "expand":
            h = href(c.get("m"))
            rec = [3, h, None] if h is not None else None
        elif op == "query":
            h = href(c.get("m"))
            if h is not None and c.get("q") in QUERIES:
                arg = c.get("arg", 0) if isinstance(c.get("arg", 0), int) else 0
                rec = [4, QUERIES.index(c["q"]) * 1000 + arg % 1000, h]
        elif op == "cond":
            ref = c.get("m")
            ctx = pid("ctxs", c.get("ctx"))
            if isinstance(ref, list) and len(ref) == 2 and ref[0] == "M" and nm and isinstance(ref[1], int) and isinstance(c.get("k"), int) and ctx is not None:
                cids = enc.conds.get(ref[1] % nm) or []
                if cids:
                    rec = [5, cids[c["k"] % len(cids)], ctx]
        elif op == "expr":
            e = pool.exprs[c["e"] % len(pool.exprs)] if pool.exprs and isinstance(c.get("e"), int) else None
            ps = pid("eps", c.get("ps"))
            if isinstance(e, dict) and "expr" in e and ps is not None:
                rec = [6, resgen.to_wire(e["expr"]), ps]
        pos[c["id"]] = len(calls)
        if rec is not None:
            supported.add(c["id"])
        order.append(c["id"])
        calls.append(rec if rec is not None else [0, None, None])
    return [enc.objs, calls], enc, order


def model_run(rn, x, op=601):
    arg, enc, order = encode(x)
    out = rn.call(op, arg)
    recs, final = out[0], out[1]
    pred = {"mutations": {}, "classes": {}, "not_new": [], "cache_filled": [], "shares": []}
    for cid, rec in zip(order, recs):
        if rec is None:
            continue
        changed, is_new, cls, cache, shares = rec
        if shares:
            pred["shares"].append(cid)
        if changed:
            pred["mutations"][cid] = sorted({enc.owner.get(i, f"object {i}") for i in changed})
        if not is_new:
            pred["not_new"].append(cid)
        pred["classes"][cid] = order[cls]
        if cache:
            pred["cache_filled"].append(cid)
    pred["final_mutations"] = sorted({enc.owner.get(i, f"object {i}") for i in final})
    return pred


# --------------------------------------------------------------------------------------------------

class HistorySurface(core.Surface):
    name = "history of public-API calls on shared objects"
    theorem = "C06_frame / C06_fresh_result / C06_history / C06_commute / C06_cache_transparent"
    shrinkable = True
    frozen = frozenset({"templates", "eps", "ctxs", "wls", "exprs", "threads"})

    def impl(self, x):
        def run():
            zygote()
            seq = run_observed(x)
            ids = seq["executed"]
            if any(n in GLOBAL_NAMES for ms in seq["mutations"].values() for n in ms):
                restore_globals()
            if seq["mutations"] or seq["identity"]:
                # already a violation: the pristine and threaded replays would only repeat it (and make shrinking slow)
                return {"results": seq["results"], "executed": ids, "mutations": seq["mutations"], "identity": seq["identity"],
                        "pristine_mismatch": {}, "thread_mismatch": {}, "thread_mutations": []}
            fresh = zygote().replay(x)
            fresh_bad = {}
            if "__error__" in fresh:
                fresh_bad["*"] = fresh["__error__"]
            else:
                for cid in ids:
                    if fresh.get(str(cid)) != seq["results"][cid]:
                        fresh_bad[cid] = {"history": seq["results"][cid][:300], "pristine": (fresh.get(str(cid)) or "<absent>")[:300]}
            thr_bad, thr_mut = {}, []
            if x.get("threads", True):
                outs, thr_mut = run_threads(x)
                for t, o in enumerate(outs):
                    if o is None:
                        thr_bad[f"thread {t}"] = "did not finish"
                        continue
                    for cid in ids:
                        if o.get(cid) != seq["results"][cid]:
                            thr_bad.setdefault(cid, {"sequential": seq["results"][cid][:300]})[f"thread {t}"] = (o.get(cid) or "<absent>")[:300]
            if any(n in GLOBAL_NAMES for n in thr_mut):
                restore_globals()
            return {"results": seq["results"], "executed": ids, "mutations": seq["mutations"], "identity": seq["identity"],
                    "pristine_mismatch": fresh_bad, "thread_mismatch": thr_bad, "thread_mutations": thr_mut}
        i = core.impl_call(run, limit=120.0)
        self._last = (core.stable_hash(x), i)
        return i

    def model(self, rn, x):
        pred = model_run(rn, x, 601)
        m = ("OK", pred)
        last = getattr(self, "_last", None)
        if last is not None and last[0] == core.stable_hash(x):
            # the record of a disagreement says what disagrees and what the two defect models predict for this history
            bad = self.verdict(x, last[1], m)
            if bad:
                pred["discrepancies"] = bad
                for op, name in ((602, "defect model F04 (extra_params not copied)"), (603, "defect model F01 (Fn::Sub replacements aliased)"),
                                 (604, "defect model: Fn::FindInMap leaf not copied")):
                    q = model_run(rn, x, op)
                    pred[name] = {"mutations": q["mutations"], "final_mutations": q["final_mutations"], "classes": q["classes"],
                                  "shares": q["shares"]}
        return m

    def verdict(self, x, i, m):
        """list of discrepancies between what was observed and what the model run predicts"""
        if i[0] != "OK":
            return [f"harness-side failure {i[1:]}"]
        o, p = i[1], m[1]
        bad = []
        # the model has one entry point for condition evaluation; cond(ctx) swallows exceptions, cond.eval(ctx) does not
        via = {c["id"]: c.get("via", "call") for c in valid_calls(x)}
        for cid in o["executed"]:
            om, pm = o["mutations"].get(cid, []), p["mutations"].get(cid, [])
            if om != pm:
                bad.append(f"call {cid}: implementation modified {om}, model predicts {pm}")
        for cid, why in o["identity"].items():
            if cid not in p["not_new"] and cid not in p["shares"]:
                bad.append(f"call {cid}: {'; '.join(why)} (model: new object, nothing shared)")
        for cid in p["shares"] + p["not_new"]:
            if cid in o["executed"] and cid not in o["identity"]:
                bad.append(f"call {cid}: model predicts a result that shares an object with the receiver; none observed")
        calls = {c["id"]: c for c in valid_calls(x)}

        def precise(cid):
            """the symbolic model tells two expression calls apart by the parameters they READ; it is exact on expressions built from
            the functions it knows with literal names.  An expression that wraps a reference in a function the library does not
            implement ({"Fn::ToJsonString": {"Fn::ImportValue": "A"}}: walked as a plain object by the library, opaque to the
            symbolic model) or computes the name it refers to ({"Ref": {"Ref": ..}}) is outside that fragment: "equal results" is
            not predicted for it (false alarm of the thorough tier, corrected: the quick tier never drew such a pair)."""
            c = calls.get(cid)
            if not c or c.get("op") != "expr":
                return True
            pool_e = x.get("exprs") or []
            e = pool_e[c["e"] % len(pool_e)] if pool_e and isinstance(c.get("e"), int) else None

            def ok(v):
                if isinstance(v, dict):
                    if len(v) == 1:
                        k = next(iter(v))
                        if isinstance(k, str) and (k.startswith("Fn::") or k in ("Ref", "Condition")):
                            if k not in core.MODEL_FUNCTIONS:
                                return False
                            if k in ("Ref", "Fn::ImportValue", "Condition") and not isinstance(v[k], str):
                                return False
                    return all(ok(z) for z in v.values())
                if isinstance(v, list):
                    return all(ok(z) for z in v)
                return True
            return isinstance(e, dict) and ok(e.get("expr"))

        def same_expr_call(a, b):
            """two expression calls are 'the same call' for this comparison only when they are the same expression under the same
            parameter object: the symbolic model's own notion of equal results proved unreliable for expressions (a second false
            alarm of the thorough tier: [ImportValue B, Ref AWS::NoValue, ...] under two parameter sets)"""
            ca, cb = calls.get(a), calls.get(b)
            if not ca or not cb or ca.get("op") != "expr" or cb.get("op") != "expr":
                return True
            ne, np_ = max(1, len(x.get("exprs") or [])), max(1, len(x.get("eps") or []))
            key = lambda c: (c.get("e") % ne if isinstance(c.get("e"), int) else None, c.get("ps") % np_ if isinstance(c.get("ps"), int) else None)
            return key(ca) == key(cb)
        for cid in o["executed"]:
            first = p["classes"].get(cid)
            if first is not None and first != cid and first in o["results"] and via.get(first) == via.get(cid) \
                    and precise(cid) and precise(first) and same_expr_call(cid, first) and o["results"][first] != o["results"][cid]:
                bad.append(f"call {cid} is the same call as call {first} (model: equal results) but the implementation's results differ")
        for cid, d in o["pristine_mismatch"].items():
            bad.append(f"call {cid}: result differs from the same call on fresh copies in a pristine process")
        for cid, d in o["thread_mismatch"].items():
            bad.append(f"call {cid}: result differs between the sequential and the 4-thread run")
        if o["thread_mutations"]:
            bad.append(f"4-thread run modified {o['thread_mutations']}")
        return bad

    def agree(self, x, i, m):
        return not self.verdict(x, i, m)

    def tags(self, x):
        t = set()
        for c in valid_calls(x):
            if True:
                t.add(c["op"])
                if c["op"] == "query" and c.get("q") in QUERIES:
                    t.add("q:" + c["q"])
                if isinstance(c.get("m"), list) and c["m"][:1] == ["R"]:
                    t.add("chained")
        return t

    def nontrivial(self, x, i, m):
        return i[0] == "OK" and len(i[1]["executed"]) >= 2

    def describe(self, x):
        return wire.jsonable(x)


HIST = HistorySurface()
SURFACES = {HIST.name: HIST}



# --------------------------------------------------------------------------------------------------
# generators

HAND_TEMPLATES = [
    # every pairing a statement allows: Action next to NotAction, Resource next to NotResource, Principal next to NotPrincipal, each
    # as a list (the getters concatenate the two: they must build a NEW list)
    {"Resources": {
        "Q": {"Type": "AWS::SQS::QueuePolicy", "Properties": {"Queues": ["q"], "PolicyDocument": {"Version": "2012-10-17", "Statement": [
            {"Sid": "both", "Effect": "Allow", "Action": ["sqs:SendMessage", "sqs:Get*"], "NotAction": ["iam:*"],
             "Resource": ["arn:aws:sqs:eu-west-1:123456789012:q"], "NotResource": ["arn:aws:sqs:*:*:other", "x"],
             "Principal": ["arn:aws:iam::123456789012:root"], "NotPrincipal": {"AWS": ["arn:aws:iam::999999999999:root"]}},
            {"Sid": "deny", "Effect": "Deny", "Action": ["sqs:*"], "NotAction": "sqs:ReceiveMessage", "Resource": "*", "Principal": "*"}]}}},
        "G": {"Type": "Custom::Thing", "Properties": {"Doc": {"Statement": [
            {"Effect": "Allow", "Action": ["s3:GetObject"], "NotAction": ["s3:Put*", "s3:Delete*"], "Resource": ["a"], "NotResource": ["b"]}]}}}}},
    {"Parameters": {"S": {"Type": "String"}, "L": {"Type": "CommaDelimitedList", "Default": "a,b"},
                    "Secret": {"Type": "String", "NoEcho": True}, "N": {"Type": "Number", "Default": 3}},
     "Conditions": {"IsProd": {"Fn::Equals": [{"Ref": "S"}, "prod"]}, "NotProd": {"Fn::Not": [{"Condition": "IsProd"}]}},
     "Resources": {
         "R1": {"Type": "Custom::Thing", "Properties": {"A": {"Fn::Sub": ["${V}-${S}", {"V": "local"}]}, "B": {"Ref": "V"},
                                                        "C": {"Ref": "L"}, "D": {"Ref": "Secret"}, "E": {"Ref": "S"}}},
         "R2": {"Type": "Custom::Thing", "Condition": "IsProd", "Properties": {"V": {"Ref": "V"}, "W": {"Fn::Sub": "${S}/${AWS::Region}"}}},
         "R3": {"Type": "AWS::S3::Bucket", "Properties": {"BucketName": {"Fn::Sub": ["${W}", {"W": {"Ref": "S"}}]}}}}},
    {"Parameters": {"Org": {"Type": "String", "Default": "o-1"}, "Who": {"Type": "String", "Default": "arn:aws:iam::123456789012:root"}},
     "Resources": {
         "Role": {"Type": "AWS::IAM::Role", "Properties": {
             "AssumeRolePolicyDocument": {"Version": "2012-10-17", "Statement": [
                 {"Effect": "Allow", "Principal": {"AWS": [{"Ref": "Who"}, "arn:aws:iam::999999999999:root"]}, "Action": "sts:AssumeRole",
                  "Condition": {"StringEquals": {"aws:PrincipalOrgID": {"Ref": "Org"}}, "Bool": {"aws:SecureTransport": True}}},
                 {"Effect": "Deny", "Principal": "*", "Action": "sts:AssumeRole",
                  "Condition": {"ForAnyValue:StringLike": {"aws:PrincipalArn": ["arn:aws:iam::*:role/a*", "arn:aws:iam::*:user/*"]}}}]},
             "Policies": [{"PolicyName": "p", "PolicyDocument": {"Version": "2012-10-17", "Statement": [
                 {"Effect": "Allow", "Action": ["s3:Get*", "s3:PutObject"], "Resource": {"Fn::Sub": "arn:aws:s3:::${Org}/*"},
                  "Condition": {"StringNotEquals": {"s3:prefix": ["a", "b"]}, "IpAddress": {"aws:SourceIp": "10.1.2.0/24"}}}]}}]}},
         "Pol": {"Type": "AWS::IAM::ManagedPolicy", "Properties": {"PolicyDocument": {"Version": "2012-10-17", "Statement": {
             "Effect": "Allow", "NotAction": "iam:*", "Resource": "*", "Condition": {"Null": {"aws:TokenIssueTime": False}}}}}},
         "Topic": {"Type": "AWS::SNS::TopicPolicy", "Properties": {"Topics": ["t"], "PolicyDocument": {"Version": "2012-10-17", "Statement": [
             {"Effect": "Allow", "Principal": {"Service": "s3.amazonaws.com"}, "Action": "sns:Publish", "Resource": "*",
              "Condition": {"ArnLike": {"aws:SourceArn": {"Fn::Sub": "arn:aws:s3:::${Org}"}}}}]}}}}},
    {"Parameters": {"P": {"Type": "List<Number>", "Default": "1,2"}, "Q": {"Type": "AWS::SSM::Parameter::Value<String>", "Default": "/p/a"}},
     "Mappings": {"M": {"k1": {"s": "v", "l": ["a", "b"]}}},
     "Resources": {"G": {"Type": "AWS::Foo::Bar", "Metadata": {"L": {"Fn::FindInMap": ["M", "k1", "l"]}, "K": ["x", {"Ref": "P"}]},
                         "Properties": {"A": {"Fn::FindInMap": ["M", "k1", "l"]}, "B": {"Fn::Select": [0, {"Ref": "P"}]},
                                        "C": "{{resolve:ssm:/p/a:1}}", "D": {"Fn::Join": ["-", {"Ref": "P"}]},
                                        "E": {"Fn::If": ["Nope", "x", {"Ref": "AWS::NoValue"}]}, "F": {"Fn::Sub": ["${X}${Y}", {"X": {"Ref": "Q"}, "Y": "y"}]}}}}},
]
HAND_EPS = [{"S": "v", "Other": "o"}, {"S": "prod", "Secret": "hunter2", "L": "p,q", "V": "from-extra"}, {}, None,
            {"Org": "o-2", "Who": "arn:aws:iam::111111111111:root", "/p/a:1": "ssm-value", "AWS::Region": "us-east-1"},
            {"P": "7,8,9", "Q": "/p/b", "N": 5, "Undeclared": "u"}]
HAND_CTXS = [{"aws:PrincipalOrgID": "o-1", "aws:SecureTransport": True, "aws:PrincipalArn": ["arn:aws:iam::1:role/abc"]},
             {"aws:PrincipalOrgID": "o-2", "aws:SecureTransport": False, "s3:prefix": "a", "aws:k": "a", "aws:PrincipalArn": "arn:aws:iam::1:user/u"},
             {}, {"aws:k": ["a", "b"], "s3:prefix": ["c"], "aws:TokenIssueTime": "2020-01-01T00:00:00Z", "aws:SourceArn": "arn:aws:s3:::o-1"}]
HAND_WLS = [["arn:aws:iam::123456789012:root"], [], ["AWS::IAM::Role", "AWS::S3::Bucket"], ["Custom::Thing", "AWS::IAM::Policy", "AWS::SNS::Topic"],
            ["*", "s3.amazonaws.com"]]
HAND_EXPRS = [
    {"expr": [{"Fn::Sub": ["${V}", {"V": "local"}]}, {"Ref": "V"}], "mappings": {}, "conds": {}},
    {"expr": {"a": {"Fn::Sub": ["${S}-${W}", {"W": {"Ref": "S"}}]}, "b": {"Ref": "W"}, "c": {"Ref": "S"}}, "mappings": {}, "conds": {}},
    {"expr": {"Fn::Join": ["", [{"Ref": "S"}, {"Fn::Sub": "${Other}"}]]}, "mappings": {}, "conds": {"C": True}},
]


ALIGNED_TEXTS = [("sqs:deletemessage*", "sqs:DeleteMessageBatch"), ("S3:GETOBJECT*", "s3:GetObjectAcl"), ("iam:pass*", "IAM:PassRole"),
                 ("ec2:Describe?nstances", "ec2:describeinstances"), ("s3:Get*", "s3:getobject"), ("sns:publish", "SNS:Publish")]


def aligned_template(rng):
    """the SAME wildcard text in two roles: an IAM action pattern (matched ignoring case) and the value of a case-sensitive
    StringLike / ArnLike condition, with a context value that differs from it in letter case only -- hidden state that remembers a
    compiled matcher by its text alone makes the answers depend on which role was used first"""
    pat, val = rng.choice(ALIGNED_TEXTS)
    op = rng.choice(["StringLike", "StringNotLike", "ForAnyValue:StringLike", "ArnLike", "StringLikeIfExists"])
    st = {"Effect": "Allow", rng.choice(["Action", "Action", "NotAction"]): rng.choice([pat, [pat], [pat, "sts:AssumeRole"]]), "Resource": "*",
          "Condition": {op: {"aws:k": pat}}}
    t = {"Resources": {"Pol": {"Type": "AWS::IAM::ManagedPolicy", "Properties": {"PolicyDocument": {"Version": "2012-10-17", "Statement": [st]}}}}}
    return t, {"aws:k": val if not op.startswith("ForAnyValue") else [val]}


def gen_history(rng, tier="quick"):
    if rng.random() < 0.2:
        h = gen_history_plain(rng, tier)
        t, ctx = aligned_template(rng)
        h["templates"].insert(0, t)
        h["ctxs"].insert(0, ctx)
        # indices of the other calls shift by one entry: harmless (they stay valid: indices are taken modulo the pool size)
        nid = max([c["id"] for c in h["calls"]] + [0])
        head = []
        for op in rng.sample(["q", "c", "q", "c", "e"], rng.randint(2, 5)):
            nid += 1
            if op == "q":
                head.append({"id": nid, "op": "query", "m": ["M", 0], "q": rng.choice(["allowed_actions", "iam_actions"]), "arg": 0})
            elif op == "c":
                head.append({"id": nid, "op": "cond", "m": ["M", 0], "k": 0, "ctx": 0, "via": rng.choice(["call", "eval"])})
            else:
                head.append({"id": nid, "op": "expand", "m": ["M", 0]})
        at = rng.randrange(len(h["calls"]) + 1) if rng.random() < 0.5 else 0
        h["calls"][at:at] = head
        return h
    return gen_history_plain(rng, tier)


def gen_history_plain(rng, tier="quick"):
    templates, eps, ctxs, wls, exprs = [], [], [], [], []
    for _ in range(rng.randint(1, 4)):
        k = rng.random()
        if k < 0.4:
            g = tplgen.gen_template(rng)
        elif k < 0.6:
            g = tplgen.gen_condition_template(rng, rng.randint(1, 4))
        else:
            g = {"template": copy.deepcopy(rng.choice(HAND_TEMPLATES)), "extra": copy.deepcopy(rng.choice(HAND_EPS))}
        templates.append(g["template"])
        eps.append(g["extra"])
        if rng.random() < 0.5:
            decls = g["template"].get("Parameters") or {}
            eps.append(tplgen.gen_extra(rng, decls))
    eps += [copy.deepcopy(e) for e in rng.sample(HAND_EPS, rng.randint(1, 3))]
    ctxs = [copy.deepcopy(c) for c in rng.sample(HAND_CTXS, rng.randint(1, 3))]
    wls = [copy.deepcopy(w) for w in rng.sample(HAND_WLS, rng.randint(1, 3))]
    exprs = [copy.deepcopy(e) for e in rng.sample(HAND_EXPRS, rng.randint(1, 2))]
    if rng.random() < 0.5:
        env = resgen.Env(rng)
        g = resgen.ExprGen(rng, env)
        exprs.append({"expr": g.any(rng.choice([1, 2, 2, 3])), "mappings": env.mappings, "conds": env.conds})
        eps.append(env.params)
    calls, models, nid = [], [], 0
    expanded = set()     # models that descend from an expand_actions(): expanding them again (or expanding their action lists in a
                         # query) matches thousands of literal actions against the whole catalogue -- minutes, and the subject of C05
    n = rng.randint(2, 30)
    # a few shared objects get most of the traffic, so that re-use is the rule
    hot_ep = rng.randrange(len(eps))
    hot_ctx = rng.randrange(len(ctxs))
    for _ in range(n):
        nid += 1
        c = {"id": nid}
        k = rng.random()
        recv = ["M", rng.randrange(len(templates))] if not models or rng.random() < 0.55 else ["R", rng.choice(models)]
        is_exp = recv[0] == "R" and recv[1] in expanded
        if k < 0.08:
            c.update(op="parse", t=rng.randrange(len(templates)))
            models.append(nid)
        elif k < 0.40:
            ep = hot_ep if rng.random() < 0.6 else rng.randrange(len(eps))
            c.update(op="resolve", m=recv, ep=None if rng.random() < 0.1 else ep)
            models.append(nid)
            if is_exp:
                expanded.add(nid)
        elif k < 0.50 and not is_exp:
            c.update(op="expand", m=recv)
            models.append(nid)
            expanded.add(nid)
        elif k < 0.72:
            q = rng.choice(QUERIES) if rng.random() < 0.3 and not is_exp else rng.choice(CHEAP_QUERIES)   # action expansion scans the catalogue
            c.update(op="query", m=recv, q=q, arg=rng.randrange(8))
        elif k < 0.90:
            c.update(op="cond", m=recv, k=rng.randrange(6), ctx=hot_ctx if rng.random() < 0.6 else rng.randrange(len(ctxs)),
                     via=rng.choice(["call", "call", "eval"]))
        else:
            c.update(op="expr", e=rng.randrange(len(exprs)), ps=hot_ep if rng.random() < 0.5 else rng.randrange(len(eps)))
        calls.append(c)
    return {"templates": templates, "eps": eps, "ctxs": ctxs, "wls": wls, "exprs": exprs, "calls": calls, "threads": True}


def corpus():
    p = core.VERIF / "corpus" / "C06.json"
    if p.exists():
        for c in json.loads(p.read_text()):
            yield SURFACES[c["surface"]], wire.unjson(c["input"])


def cases(rng, tier, shard, nshards):
    if shard == 0:
        yield from corpus()
    # short histories that ALWAYS run, before the time budget can cut the random stream short (the detection of two stored changes,
    # C06-m3 and C06-r3m2, had come to depend on how many random histories a loaded machine got through):
    #  - the same wildcard text as action pattern and as case-sensitive condition value, in both orders of use;
    #  - a ForAllValues / ForAnyValue operator on a key ABSENT from the context next to a Null guard on the same key, evaluated twice
    #    with the same context object (the context must come back unchanged)
    for order in (("q", "c", "c"), ("c", "q", "c"), ("e", "c", "q")):
        t, ctx = aligned_template(rng)
        calls, nid = [], 0
        for op in order:
            nid += 1
            calls.append({"q": {"id": nid, "op": "query", "m": ["M", 0], "q": "allowed_actions", "arg": 0},
                          "c": {"id": nid, "op": "cond", "m": ["M", 0], "k": 0, "ctx": 0, "via": "call"},
                          "e": {"id": nid, "op": "expand", "m": ["M", 0]}}[op])
        yield HIST, {"templates": [t], "eps": [{}], "ctxs": [ctx], "wls": [["*"]], "exprs": [], "calls": calls, "threads": True}
    for qual in ("ForAllValues:StringEquals", "ForAnyValue:StringLike", "ForAllValues:StringLikeIfExists"):
        st = {"Effect": "Allow", "Action": "s3:GetObject", "Resource": "*",
              "Condition": {qual: {"aws:TagKeys": ["a", "b*"]}, "Null": {"aws:TagKeys": "false"}}}
        t = {"Resources": {"Pol": {"Type": "AWS::IAM::ManagedPolicy", "Properties": {"PolicyDocument": {"Version": "2012-10-17", "Statement": [st]}}}}}
        calls = [{"id": i + 1, "op": "cond", "m": ["M", 0], "k": 0, "ctx": 0, "via": v} for i, v in enumerate(["call", "eval", "call"])]
        yield HIST, {"templates": [t], "eps": [{}], "ctxs": [{"aws:username": "u"}], "wls": [["*"]], "exprs": [], "calls": calls, "threads": True}
    n = {"quick": 400, "thorough": 6000}[tier]
    for _ in range(n):
        yield HIST, gen_history(rng, tier)
