"""Per-property text for MANIFEST.json (bin/mkmanifest)."""
COMMON_NOTE = ("Trusted: Coq 8.16.1 kernel (+ vm_compute; no native_compute); no axioms declared (Print Assumptions of every property theorem "
               "is recorded in the evidence); ExtrOcamlBasic extraction + 30-line OCaml driver, cross-checked each run by vm_compute on sampled "
               "calls; harness/gen_tables.py; the correspondence harness; CPython/pydantic/stdlib leaf functions named below. ")
NOTES = ("Every check = (a) full .vo build of the property's proof cone, re-proving the finite facts about tables regenerated from the live "
         "source, (b) grep gate for Admitted/Axiom/..., (c) differential correspondence of the extracted Gallina model with /repo's working tree "
         "through pycfmodel's public API, (d) kernel cross-check of the runner. A broken obligation or a divergence is reported as VIOLATION with "
         "a replay (or no-failing-input-found). known_findings.json lists genuine defects: fixed ones are documentation, known ones print KNOWN-FINDING.")
NOT_CLAIMED = {}
CLAIMED = {
 "C08": {
  "technique": "machine-checked proof in Coq (glob matcher sound+complete vs segmentation spec, any alphabet) + differential correspondence",
  "text": "glob_match is proved equivalent to the declarative segmentation spec for every alphabet with decidable equality, every pattern and every candidate (induction on the pattern, inner induction on the candidate); literal, '*', '?', totality and case-folding corollaries. Tied to /repo on every run by running regex_from_cf_string(p).match(s), _expand_action(p) and the four Like/NotLike operators against the extracted matcher (exhaustive over a 9-symbol alphabet up to length 3 in the thorough tier).",
  "note": COMMON_NOTE + "Python's re on the escaped patterns is a leaf. ASCII case folding only; single-line text.",
 },
 "C16": {
  "technique": "machine-checked proof in Coq (membership iff-theorems for effect gate, principal enumeration, whitelist) + generated Principal field table + differential correspondence",
  "text": "25 theorems over the policy model: Effect accepted iff Allow/Deny in any case and stored canonically; principals(st) = exactly the principals named by Principal/NotPrincipal in every shape; non-whitelisted iff string principal not in the whitelist; the three document queries see exactly the Allow statements (parametric in the expansion function); Deny statements are invisible; order-blindness. The Principal field order is regenerated from the live class and re-proved each run. Tied to /repo through 11 public-API surfaces on generated documents.",
  "note": COMMON_NOTE + "Pattern arguments restricted to globs built by regex_from_cf_string and escaped literal prefixes; get_allowed_actions compared for string Action patterns (expansion itself is C09). ASCII capitalize (checked exact for this validator each run).",
 },
}
