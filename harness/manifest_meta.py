"""Per-property text for MANIFEST.json (bin/mkmanifest)."""
COMMON_NOTE = ("Trusted: Coq 8.16.1 kernel (+ vm_compute; no native_compute); no axioms declared (Print Assumptions of every property theorem "
               "is recorded in the evidence); ExtrOcamlBasic extraction + 30-line OCaml driver, cross-checked each run by vm_compute on sampled "
               "calls; harness/gen_tables.py; the correspondence harness; CPython/pydantic/stdlib leaf functions named below. ")
NOTES = ("Every check = (a) full .vo build of the property's proof cone, re-proving the finite facts about tables regenerated from the live "
         "source, (b) grep gate for Admitted/Axiom/..., (c) differential correspondence of the extracted Gallina model with /repo's working tree "
         "through pycfmodel's public API, (d) kernel cross-check of the runner. A broken obligation or a divergence is reported as VIOLATION with "
         "a replay (or no-failing-input-found). known_findings.json lists genuine defects: fixed ones are documentation, known ones print KNOWN-FINDING.")
NOT_CLAIMED = {}
CLAIMED = {
 "C08": {
  "technique": "machine-checked proof in Coq (glob matcher sound+complete vs segmentation spec, any alphabet) + differential correspondence",
  "text": "glob_match is proved equivalent to the declarative segmentation spec for every alphabet with decidable equality, every pattern and every candidate (induction on the pattern, inner induction on the candidate); literal, '*', '?', totality and case-folding corollaries. Tied to /repo on every run by running regex_from_cf_string(p).match(s), _expand_action(p) and the four Like/NotLike operators against the extracted matcher (exhaustive over a 9-symbol alphabet up to length 3 in the thorough tier).",
  "note": COMMON_NOTE + "Python's re on the escaped patterns is a leaf. ASCII case folding only; single-line text.",
 },
 "C16": {
  "technique": "machine-checked proof in Coq (membership iff-theorems for effect gate, principal enumeration, whitelist) + generated Principal field table + differential correspondence",
  "text": "25 theorems over the policy model: Effect accepted iff Allow/Deny in any case and stored canonically; principals(st) = exactly the principals named by Principal/NotPrincipal in every shape; non-whitelisted iff string principal not in the whitelist; the three document queries see exactly the Allow statements (parametric in the expansion function); Deny statements are invisible; order-blindness. The Principal field order is regenerated from the live class and re-proved each run. Tied to /repo through 11 public-API surfaces on generated documents.",
  "note": COMMON_NOTE + "Pattern arguments restricted to globs built by regex_from_cf_string and escaped literal prefixes; get_allowed_actions compared for string Action patterns (expansion itself is C09). ASCII capitalize (checked exact for this validator each run).",
 },
 "C01": {
  "technique": "machine-checked proof in Coq (executable resolver = declarative big-step semantics, Fn::Sub tokenisation/substitution theorems) + regenerated function table + differential correspondence",
  "text": "resolve (one structurally recursive Gallina function over JSON values, all 16 function keys) is proved sound AND complete w.r.t. an inductive big-step relation Eval with one rule per construct (hence deterministic, any nesting depth, any position in lists/objects); Fn::Sub: tokenisation is a partition of the text, the result is the concatenation of each token rendered exactly once, inserted text is never rescanned, ${!x} -> ${x}, local map first then parameters, unbound kept; undefined Ref/ImportValue/FindInMap/out-of-range or negative Select give the placeholder values. Function-name -> resolver table, NoValue marker and the placeholder/SSM regex texts are regenerated from the live source and re-proved equal to what the model dispatches on. Tied to /repo by resolver.resolve(...) and parse(t).resolve(extra) on generated expressions/templates.",
  "note": COMMON_NOTE + "Leaves: pydantic re-validation after resolve (shared by both sides of the end-to-end surface), Python's \\w for a fixed non-ASCII table, str() of typed atoms (carried as text). Ill-typed arguments are EUndefined (counted, not compared). Mapping leaves other than strings/lists of strings: known finding F14b stream.",
 },
 "C02": {
  "technique": "machine-checked proof in Coq (order-independence and fuel-independence of on-demand condition values, truth tables, gating, NoValue pruning) + differential correspondence over all declaration orders",
  "text": "cond_val (depth-first evaluation with the set of names not in progress) is proved to depend on the declarations only through lookups (hence invariant under every permutation of the Conditions section), to be independent of fuel above the number of declared names, to give false for in-progress (cyclic) and undeclared references, and to satisfy its defining equation; And = all / Or = any / Not / Equals-on-renderings, Fn::If selects one branch, resources are present iff their gate is open, AWS::NoValue members are pruned from lists and objects. Tied to /repo by parse(t).resolve(extra) on generated condition graphs, every declaration order for <= 5 conditions.",
  "note": COMMON_NOTE + "The implementation's taint-aware cache is not modelled (cond_val is the specification); its agreement on cyclic graphs rests on the correspondence. pydantic's lenient bool table is a leaf checked each run.",
 },
 "C11": {
  "technique": "machine-checked proof in Coq (27 operator comparisons, negation duality, width-generic network containment) + regenerated operator table + differential correspondence",
  "text": "op_test is proved to be the documented comparison for every base operator on operands of its family (equality, strict/inclusive order on Z, fold-equality for IgnoreCase for any fold, glob_spec for Like, subnet_of = inclusion of address sets for IpAddress, identity for Bool, presence for Null) and every negated operator is proved the exact dual of its positive counterpart. The operator table (159 fields: name, qualifier, IfExists, base operator, value family) is regenerated from the live StatementCondition class and Operators_complete is re-proved each run. Tied to /repo by StatementCondition(...)(ctx) and .eval(ctx) on boundary-biased operand pairs.",
  "note": COMMON_NOTE + "Policy-side parsing (pydantic) and casefold+NFKD are leaves: the harness reads the typed policy operand back from the validated model and supplies folded strings. Null follows the pinned tests (key present <=> policy true).",
 },
 "C12": {
  "technique": "machine-checked proof in Coq (short-circuit all/any semantics of condition blocks, key independence, conjunction law) + differential correspondence incl. metamorphic conjunction surface",
  "text": "eval_block (strip IfExists/ForAllValues/ForAnyValue, per-key groups, Python all/any with exceptions -> None) is proved: true iff the declarative block_sat reading; total (True/False/None, never raises); None only if a required key is missing or a comparison is undefined; the verdict of one key's group is independent of other keys' context values; a block is true iff every single-operator single-key sub-block is; colon spellings normalise. Faithful models of the two repaired defects (late-binding closures, any for negated lists) are kept in Findings/F09F10.v with the laws they refute. Tied to /repo by StatementCondition.model_validate(block)(ctx) and by the conjunction of the implementation's own parts.",
  "note": COMMON_NOTE + "Leaf test = C11's op_test. BinaryEquals with value lists is kept out of the generator (defect 11, see C15/C19).",
 },
 "C17": {
  "technique": "machine-checked proof in Coq (width-generic network arithmetic, IPv4/IPv6 text grammars, slash-zero iff whole space, is_public characterisation) + regenerated private-network table + differential correspondence",
  "text": "35 theorems: mk_net masks host bits and denotes exactly the addresses agreeing on the first l bits (any width; equals ipaddress's bitwise mask); parse4 accepts exactly the declarative CIDR grammar (prefix, netmask, hostmask, bare address; no leading zeros) and every spelling of a range parses to the same network; parse4 (print4 n) = Ok n (the through-a-reference clause); parse6 for full/compressed/embedded-IPv4 forms with parse6 (print6_full n) = Ok n; slash_zero true iff every address of the space is in the network (W = 32 and 128); is_public characterised for any table and for the table regenerated from the running Python's ipaddress (whose is_global/is_private source is compared by AST, fail-closed). Tied to /repo through six surfaces on eight resource positions, literal and through Ref, after parse and after resolve.",
  "note": COMMON_NOTE + "Only RFC 5952 compression in str(IPv6Network) is not modelled (the implementation's text is parsed back by parse6). CIDRs are generated only in typed fields of modelled resources.",
 },
}
