#!/venv/bin/python
"""bin/check <property> [quick|thorough] | --replay <file>"""
import importlib
import json
import logging
import os
import sys
import time

sys.path.insert(0, os.path.join(os.environ.get("VERIF_ROOT", "/verif"), "harness"))
import core  # noqa: E402
import gen_tables  # noqa: E402
import wire  # noqa: E402


def main():
    logging.disable(logging.CRITICAL)
    import warnings
    warnings.simplefilter("ignore")
    args = sys.argv[1:]
    pid = args[0]
    pmod = importlib.import_module("props." + pid.lower())
    seed = int(os.environ.get("VERIF_SEED", "0"))
    if len(args) >= 3 and args[1] == "--replay":
        return replay(pmod, args[2])
    tier = args[1] if len(args) > 1 else os.environ.get("VERIF_TIER", "quick")
    t0 = time.time()
    import pycfmodel
    if not os.path.realpath(pycfmodel.__file__).startswith(str(core.REPO) + "/"):
        print(f"pycfmodel is loaded from {pycfmodel.__file__}, not from {core.REPO}")
        return 2

    notes = []
    core.collect_notes(pid)   # drop remarks left by an interrupted run
    broken = []          # proof obligations / builds that no longer check
    violations = []      # concrete failing inputs
    table_info = {}
    props = {"theorems": [], "ok": False, "axioms": {}, "closed": 0}
    runner_ok = False
    with core.build_lock():
        try:
            table_info = gen_tables.generate(getattr(pmod, "TABLES", []))
        except gen_tables.TranslatorError as e:
            broken.append({"file": "harness/gen_tables.py", "theorem": "translator(" + e.table + ")", "message": str(e)})
        ok, out = core.make(["theories/Runner.vo"])
        if ok:
            try:
                core.build_runner()
                runner_ok = True
            except RuntimeError as e:
                broken.append({"file": "extraction/Extract.v", "theorem": "runner build", "message": str(e)[-1500:]})
        else:
            broken.append(core.parse_make_error(out))
        targets = [f"theories/Properties/{pid}.vo"] + list(getattr(pmod, "EXTRA_TARGETS", []))
        ok, out = core.make(targets)
        if not ok:
            broken.append(core.parse_make_error(out))
        else:
            props = core.compile_properties(pid)
            if not props["ok"]:
                broken.append(props["error"])
    t_build = time.time() - t0
    coqchk = None
    if tier == "thorough" and not broken:
        # independent re-check of the compiled property file and everything it loads (coqchk), with the axiom summary
        import re
        import subprocess
        tq = time.time()
        try:
            r = subprocess.run(["coqchk", "-silent", "-o", "-Q", "theories", "PV", "-Q", "gen", "PVGen", f"PV.Properties.{pid}"],
                               cwd=core.VERIF, capture_output=True, text=True, timeout=1500)
            txt = r.stdout + r.stderr

            def section(title):
                m = re.search(r"\* " + re.escape(title) + r":\s*(.*?)\n\s*\n", txt, re.S)
                return " ".join(m.group(1).split()) if m else None
            coqchk = {"exit": r.returncode, "seconds": round(time.time() - tq, 1), "axioms": section("Axioms"),
                      "type_in_type": section("Constants/Inductives relying on type-in-type"),
                      "unsafe_fixpoints": section("Constants/Inductives relying on unsafe (co)fixpoints"),
                      "assumed_positivity": section("Inductives whose positivity is assumed")}
            bad = r.returncode != 0 or any(coqchk[k] != "<none>" for k in ("axioms", "type_in_type", "unsafe_fixpoints", "assumed_positivity"))
            if bad:
                broken.append({"file": f"theories/Properties/{pid}.vo", "theorem": "coqchk -o (independent checker / axiom summary)",
                               "message": txt[-1500:]})
        except subprocess.TimeoutExpired:
            coqchk = {"exit": None, "seconds": round(time.time() - tq, 1), "note": "timed out after 1500 s (not counted as broken)"}
    gate = core.grep_gate()
    if gate:
        broken.append({"file": gate[0].split(":")[0], "theorem": "grep-gate", "message": "; ".join(gate[:5])})

    # obligations
    gen_obl = list(getattr(pmod, "GEN_OBLIGATIONS", []))
    obligations = len(props["theorems"]) + len(gen_obl)
    if not props["theorems"]:
        import re
        src = (core.VERIF / f"theories/Properties/{pid}.v").read_text()
        obligations = len(re.findall(r"^\s*(?:Theorem|Example)\s+([\w']+)", src, re.M)) + len(gen_obl)
    discharged = obligations if not broken else 0

    # correspondence
    stats = core.Stats()
    kc = (0, True, "")
    t1 = time.time()
    t_corr = t_kc = 0.0
    if runner_ok:
        nshards, budget_s = pmod.BUDGET[tier]
        stats = core.run_all_shards(pmod, tier, seed, nshards, budget_s)
        if hasattr(pmod, "crosscheck_state"):
            st_expr, imports = pmod.crosscheck_state()
        else:
            st_expr, imports = "RState.init", ""
        samples = stats.runner_samples[:240]
        t_corr = time.time() - t1
        t2 = time.time()
        with core.build_lock():
            # another check running in the same tree may have rebuilt part of the development since this one built the runner
            # (only when the source tables changed in between): make sure Runner.vo and what it loads are consistent, under the lock
            core.make(["theories/Runner.vo"])
            kc = core.kernel_crosscheck(pid, samples, st_expr, imports)
        t_kc = time.time() - t2
        if not kc[1]:
            broken.append({"file": "runner/driver.ml", "theorem": "kernel cross-check of the extracted runner", "message": kc[2]})
    if hasattr(pmod, "extra_checks"):
        try:
            for v in pmod.extra_checks(tier, seed, stats, broken):
                stats.violations.append(v)
        except gen_tables.TranslatorError as e:
            if not any(b.get("theorem") == "translator(" + e.table + ")" for b in broken):
                broken.append({"file": "harness/gen_tables.py", "theorem": "translator(" + e.table + ")", "message": str(e)})
    notes += core.collect_notes(pid)
    rates = core.surface_rates(stats)
    loss = core.coverage_loss_notes(pid, tier, rates)
    notes += loss
    for name, msg in sorted(gen_tables.STALE.items()):
        notes.append(f"table {name}: the live source is no longer recognised by the translator ({msg}); generators and model ran on "
                     "the snapshot of the last successful translation while searching for a failing input")

    # known findings: deliberate stream
    known = [f for f in core.load_known() if f.get("status") == "known" and pid in (f.get("properties") or [f.get("property")])]
    known_lines = []
    for f in known:
        still = None
        if hasattr(pmod, "reproduce_known") and runner_ok:
            try:
                still = pmod.reproduce_known(f)
            except Exception as e:  # noqa
                still = None
                notes.append(f"reproduce_known({f['id']}) failed: {e!r}")
        suffix = "" if still in (True, None) else " (no longer reproduces on this tree)"
        known_lines.append(f"KNOWN-FINDING: property={pid} {f['id']} {f['what']}{suffix}")

    # report
    n = 0
    lines = []
    for v in stats.violations[:6]:
        n += 1
        kind = "harness-crash" if v.get("crash") else "counterexample"
        path = core.write_replay(pid, seed, n, {
            "kind": kind, "surface": v["surface"], "theorem": v["theorem"], "tags": v["tags"], "input": v["input"],
            "original_input": v.get("original_input"), "impl": v["impl"], "model": v["model"], "shard": v.get("shard"),
            "spec_verdict": False, "broken_obligations": broken,
        })
        lines.append(f"VIOLATION property={pid} replay={path}" + (" no-failing-input-found" if v.get("crash") else ""))
    if broken and not [v for v in stats.violations if not v.get("crash")]:
        n += 1
        path = core.write_replay(pid, seed, n, {
            "kind": "unproven", "theorem": [b.get("theorem") for b in broken], "broken_obligations": broken,
            "searched": {"evaluations": stats.evaluations, "surfaces": stats.by_surface},
            "input": None, "impl": None, "model": None, "spec_verdict": None,
        })
        lines.append(f"VIOLATION property={pid} replay={path} no-failing-input-found")

    wall = time.time() - t0
    def small(v, limit=1500):
        t = json.dumps(v, default=str, ensure_ascii=False)
        return v if len(t) <= limit else {"truncated": t[:limit] + " ...", "chars": len(t)}
    stats.samples = [{k: small(v) for k, v in smp.items()} for smp in stats.samples]
    coverage = {
        "obligations": obligations, "discharged": discharged,
        "checker_cmd": f"make -f Makefile.coq theories/Properties/{pid}.vo && coqc -Q theories PV -Q gen PVGen theories/Properties/{pid}.v",
        "trusted_base": core.TRUSTED_BASE + list(getattr(pmod, "TRUSTED_EXTRA", [])),
        "theorems": props["theorems"], "generated_obligations": gen_obl,
        "axioms": props.get("axioms", {}), "closed_under_global_context": props.get("closed", 0),
        "generated_tables": table_info, "coqchk": coqchk,
        "evaluations": stats.evaluations, "distinct_nontrivial": len(stats.nontrivial),
        "rule": getattr(pmod, "RULE", ""), "samples": stats.samples[:8] or [{"note": "no correspondence cases were run"}],
        "model_undefined": stats.undefined, "by_surface": stats.by_surface, "surface_rates": rates, "distribution": {k: v for k, v in sorted(stats.dist.items()) if not k.startswith("surface_")},
        "kernel_crosscheck_cases": kc[0], "kernel_crosscheck_ok": kc[1],
        "known_findings_seen": stats.known_seen, "broken_obligations": broken, "notes": notes,
        "exhaustive": bool(getattr(pmod, "EXHAUSTIVE", {}).get(tier, False)),
        "modelled_not_verified": getattr(pmod, "MODELLED", ""),
        "phase_seconds": {"build_and_proofs": round(t_build, 1), "correspondence": round(t_corr, 1), "kernel_crosscheck": round(t_kc, 1)},
    }
    core.write_evidence(pid, tier, seed, coverage, list(getattr(pmod, "ASSUMPTIONS", [])), wall, len(lines))
    for l in known_lines:
        print(l)
    for l in lines:
        print(l)
    for l in loss:
        print("NOTE " + l)
    print(f"[{pid} {tier}] obligations {discharged}/{obligations}, cases {stats.evaluations} "
          f"(nontrivial {len(stats.nontrivial)}, undefined {stats.undefined}), kernel cross-check {kc[0]} ok={kc[1]}, "
          f"violations {len(lines)}, {wall:.1f}s (build {t_build:.0f}s, correspondence {t_corr:.0f}s, kernel {t_kc:.0f}s)")
    return 1 if lines else 0


def replay(pmod, path):
    data = json.loads(open(path).read())
    print(json.dumps({k: data.get(k) for k in ("property", "kind", "surface", "theorem", "tags")}, indent=1))
    if data.get("kind") != "counterexample":
        print("nothing to execute: ", json.dumps(data.get("broken_obligations"), indent=1))
        return 0
    with core.build_lock():
        core.make(["theories/Runner.vo"])
        core.build_runner()
    rn = core.Runner()
    if hasattr(pmod, "prepare"):
        pmod.prepare(rn)
    surf = pmod.SURFACES[data["surface"]]
    x = surf.undescribe(data["input"]) if hasattr(surf, "undescribe") else wire.unjson(data["input"])
    i, m = surf.impl(x), surf.model(rn, x)
    print("input :", json.dumps(data["input"]))
    print("impl  :", json.dumps(wire.jsonable(i), default=str))
    print("model :", json.dumps(wire.jsonable(m), default=str))
    print("agree :", surf.agree(x, i, m))
    rn.close()
    return 0


if __name__ == "__main__":
    sys.exit(main())
