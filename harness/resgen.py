"""Generators and adapters shared by the resolver family (C01-C07)."""
import copy
import datetime
import ipaddress
import re

import core
import wire
from wire import Typed

FUNCS = ["Condition", "Fn::And", "Fn::Base64", "Fn::Equals", "Fn::FindInMap", "Fn::GetAtt", "Fn::GetAZs", "Fn::If",
         "Fn::ImportValue", "Fn::Join", "Fn::Not", "Fn::Or", "Fn::Select", "Fn::Split", "Fn::Sub", "Ref"]
WORD_EXTRA = ["é", "中", "あ"]       # must equal Resolver/Text.v WORD_EXTRA
NONWORD_EXTRA = ["€", "→"]


def check_alphabet():
    for c in WORD_EXTRA:
        assert re.match(r"\w", c), c
    for c in NONWORD_EXTRA:
        assert not re.match(r"\w", c), c


def to_wire(v):
    """Python object produced by pycfmodel (plain data + typed atoms) -> model value."""
    if v is None or isinstance(v, (bool, int, str)):
        return v
    if isinstance(v, float):
        return Typed("float", str(v))
    if isinstance(v, datetime.datetime):
        return Typed("datetime", str(v))
    if isinstance(v, datetime.date):
        return Typed("date", str(v))
    if isinstance(v, ipaddress.IPv4Network):
        return Typed("net4", str(v))
    if isinstance(v, ipaddress.IPv6Network):
        return Typed("net6", str(v))
    if isinstance(v, (bytes, bytearray)):
        return bytes(v)
    if isinstance(v, (list, tuple)):
        return [to_wire(x) for x in v]
    if isinstance(v, dict):
        return {str(k): to_wire(x) for k, x in v.items()}
    if hasattr(v, "model_dump"):
        return to_wire(v.model_dump())
    raise TypeError(f"to_wire: {type(v)}")


def render_all(v):
    """Leaf rendering used to compare a re-validated (typed) model with plain resolved data: every scalar
    becomes the text the resolver would print for it."""
    if v is None:
        return None
    if v is True:
        return "true"
    if v is False:
        return "false"
    if isinstance(v, int):
        return str(v)
    if isinstance(v, str):
        return v.lower() if v.lower() in ("true", "false") else v
    if isinstance(v, Typed):
        return v.text
    if isinstance(v, (bytes, bytearray)):
        import base64
        return base64.b64encode(bytes(v)).decode()
    if isinstance(v, list):
        return [render_all(x) for x in v]
    if isinstance(v, dict):
        return {k: render_all(x) for k, x in v.items()}
    raise TypeError(type(v))


# ------------------------------------------------------------------------------------------------
# environment and expression generator

PLAIN = ["a", "b", "prod", "x-y", "my bucket", "arn:aws:s3:::b", "v1", "", "0", "7", "a,b", "k1", "s", "l", "M", "eu-west-1",
         "A", "B", "é中", "x€y", "1.5", "None", "Yes", "off", "no", "t", "AWS::NoValue "]
BOOLISH = ["true", "TRUE", "False", "fAlSe", "True"]
NAMES = ["A", "B", "Env", "L", "x:y", "AWS::Region", "AWS::AccountId", "é中", "P_1", "Missing", "Z9"]


class Env:
    def __init__(self, rng, findings=False):
        self.rng = rng
        self.findings = findings    # allow constructs that exercise known findings
        r = rng
        self.params = {}
        for n in r.sample(NAMES[:-2], r.randint(2, 7)):
            k = r.random()
            if n == "L" or k < 0.15:
                self.params[n] = [r.choice(PLAIN) for _ in range(r.randint(0, 3))]
            elif k < 0.3:
                self.params[n] = r.choice(BOOLISH)
            elif k < 0.45:
                self.params[n] = r.choice(["${A}", "${B}x", "x${!A}", "${Missing}", "$" + "{A}${A}"])
            elif k < 0.5:
                self.params[n] = "{{resolve:ssm:/p/" + r.choice(["a", "b.c", "d-e_f"]) + ":" + r.choice(["1", "22"]) + "}}"
            else:
                self.params[n] = r.choice(PLAIN)
        if r.random() < 0.5:
            self.params["/p/a:1"] = r.choice(["ssm-val", "", "TRUE"])
        if r.random() < 0.3:
            self.params["AWS::NoValue"] = "AWS::NoValue"
        self.mappings = {}
        for m in r.sample(["M", "RegionMap", "x€y"], r.randint(0, 2)):
            self.mappings[m] = {}
            # keys spelled like booleans: the resolver renders "True" as "true" before Fn::FindInMap looks the key up, and the key must
            # still be found (finding F31); two spellings of the same boolean in one level: the exact one wins, else the first
            for k1 in r.sample(["k1", "eu-west-1", "prod", "a", "True", "FALSE", "true"], r.randint(1, 3)):
                self.mappings[m][k1] = {}
                for k2 in r.sample(["s", "l", "b", "v1", "False", "TRUE"], r.randint(1, 3)):
                    self.mappings[m][k1][k2] = self.mapping_leaf()
        self.conds = {c: r.random() < 0.5 for c in r.sample(["C1", "C2", "IsProd", "é"], r.randint(0, 3))}

    def mapping_leaf(self):
        r = self.rng
        if self.findings and r.random() < 0.5:
            return r.choice([0, 5, True, False, 1.5, "True", "FALSE", None, {"a": "b"}])
        if r.random() < 0.25:
            return [r.choice(["a", "b", "x-y", "7"]) for _ in range(r.randint(0, 3))]
        return r.choice(["a", "ami-123", "x y", "7", "k1", "", "s"])


class ExprGen:
    def __init__(self, rng, env: Env):
        self.r = rng
        self.env = env
        self.nfn = 0
        self.str_only = False   # typed string fields of modelled resources reject int / bool literals

    # -- pieces
    def name(self):
        r = self.r
        if r.random() < 0.75 and self.env.params:
            return r.choice(list(self.env.params))
        return r.choice(NAMES)

    def str_name(self):
        """name of a parameter whose value is a string (if any)"""
        c = [k for k, v in self.env.params.items() if isinstance(v, str)]
        return self.r.choice(c) if c and self.r.random() < 0.85 else self.r.choice(NAMES)

    def sub_text(self, extra_names=()):
        r = self.r
        out = []
        for _ in range(r.randint(0, 6)):
            k = r.random()
            if k < 0.35:
                out.append("${" + r.choice(list(extra_names) + [self.name()]) + "}")
            elif k < 0.45:
                out.append("${!" + r.choice(list(extra_names) + [self.name()]) + "}")
            elif k < 0.55:
                out.append(r.choice(["${ A }", "${A.B}", "$A", "${}", "${!}", "$${A}", "${${A}}", "{A}", "${A", "}", "$", "${a-b}", "${A}}", "${€}"]))
            else:
                out.append(r.choice(PLAIN + ["-", "/", ":", "!"]))
        return "".join(out)

    def lit(self):
        r = self.r
        k = r.random()
        if k < 0.6:
            return r.choice(PLAIN)
        if k < 0.75:
            return r.choice(BOOLISH)
        if k < 0.85:
            # 1.0 / 0.0 next to True / False / 1 / 0: equal under == and hash, different texts ("1.0", "true", "1")
            return r.choice(["0", "1", "7", "-3"]) if self.str_only else r.choice([0, 1, 7, -3, 12345678901234567890, 1.0, 0.0, 1.5])
        if k < 0.92:
            return r.choice(["true", "False"]) if self.str_only else r.choice([True, False])
        return r.choice(["{{resolve:ssm:/p/a:1}}", "{{resolve:ssm:/p/zz:3}}", "{{resolve:ssm:bad}}", "x{{resolve:ssm:/p/a:1}}",
                         "{{resolve:ssm:/p/a:1}}tail"])

    def s(self, d):
        """expression whose value is (normally) a string"""
        r = self.r
        if d <= 0 or r.random() < 0.25:
            return self.lit()
        self.nfn += 1
        k = r.random()
        if k < 0.16:
            return {"Ref": self.str_name() if r.random() < 0.9 else self.s(d - 1)}
        if k < 0.20:
            return {"Fn::ImportValue": self.s(d - 1)}
        if k < 0.36:
            if r.random() < 0.5:
                return {"Fn::Sub": self.sub_text()}
            names = r.sample(["V", "W", "A", "AWS::Region", "é中"], r.randint(0, 3))
            vmap = {}
            for n in names:
                if vmap and r.random() < 0.45:
                    # a later variable whose value mentions a name an EARLIER sibling binds (the sibling must stay invisible here)
                    prev = r.choice(list(vmap))
                    vmap[n] = r.choice([{"Ref": prev}, {"Fn::Sub": "<${" + prev + "}>"}, {"Fn::Join": ["", [{"Ref": prev}, "!"]]}])
                else:
                    vmap[n] = self.s(d - 1)
            return {"Fn::Sub": [self.sub_text(names), vmap]}
        if k < 0.48:
            return {"Fn::Join": [r.choice(["", "-", ",", "::", " "]) if r.random() < 0.85 else self.s(d - 1), self.l(d - 1)]}
        if k < 0.60:
            idx = r.choice([0, 0, 1, 1, 2, 3, -1, -2, "0", "1", "2", "-1", "+1"])
            return {"Fn::Select": [idx if r.random() < 0.85 else self.s(d - 1), self.l(d - 1)]}
        if k < 0.72:
            ms = list(self.env.mappings)
            if ms and r.random() < 0.8:
                m = r.choice(ms)
                k1 = r.choice(list(self.env.mappings[m]) + ["nokey"])
                k2 = r.choice(list(self.env.mappings[m].get(k1, {"s": 0})) + ["nokey"])
                if r.random() < 0.25:
                    k1 = r.choice([k1.swapcase(), k1.lower(), k1.upper(), "True", "false"])
                if r.random() < 0.2:
                    k2 = r.choice([k2.swapcase(), k2.lower(), "TRUE", "False"])
            else:
                m, k1, k2 = "NoMap", "k1", "s"
            def wrap(x):
                # the commonest real form: the top-level key looked up through the region pseudo parameter
                if x == "eu-west-1" and r.random() < 0.6:
                    return {"Ref": "AWS::Region"}
                return x if r.random() < 0.7 else {"Fn::Join": ["", [x]]}
            return {"Fn::FindInMap": [wrap(m), wrap(k1), wrap(k2)]}
        if k < 0.78:
            return {"Fn::Base64": self.s(d - 1)}
        if k < 0.90:
            return {"Fn::If": [self.cname(), self.s(d - 1), self.s(d - 1)]}
        if k < 0.95:
            return {"Fn::GetAtt": [r.choice(PLAIN), "Arn"]}
        return {"Fn::GetAZs": r.choice(["", {"Ref": "AWS::Region"}])}

    def cname(self):
        r = self.r
        return r.choice(list(self.env.conds) + ["Undeclared"]) if self.env.conds and r.random() < 0.85 else "Undeclared"

    def l(self, d):
        """expression whose value is (normally) a list of strings"""
        r = self.r
        k = r.random()
        if d <= 0 or k < 0.55:
            out = []
            for _ in range(r.randint(0, 4)):
                if r.random() < 0.12:
                    out.append({"Ref": "AWS::NoValue"})
                else:
                    out.append(self.s(d - 1))
            return out
        self.nfn += 1
        if k < 0.75:
            return {"Fn::Split": [r.choice([",", "-", "::", "a"]), self.s(d - 1)]}
        if k < 0.85:
            c = [n for n, v in self.env.params.items() if isinstance(v, list)]
            return {"Ref": r.choice(c) if c else "L"}
        return {"Fn::If": [self.cname(), self.l(d - 1), self.l(d - 1)]}

    def b(self, d):
        """condition-function expression (value: bool)"""
        r = self.r
        self.nfn += 1
        k = r.random()
        if d <= 0 or k < 0.35:
            return {"Fn::Equals": [self.s(d - 1), self.s(d - 1) if r.random() < 0.6 else self.lit()]}
        if k < 0.5:
            return {"Condition": self.cname()}
        if k < 0.65:
            return {"Fn::Not": [self.b(d - 1)]}
        if k < 0.82:
            return {"Fn::And": [self.b(d - 1) for _ in range(r.randint(1, 3))]}
        return {"Fn::Or": [self.b(d - 1) for _ in range(r.randint(1, 3))]}

    def unsupported(self, d):
        """an intrinsic pycfmodel does not implement, wrapping supported ones: an ordinary object to the resolver"""
        r = self.r
        name = r.choice(["Fn::Cidr", "Fn::Length", "Fn::ToJsonString", "Fn::Transform", "Fn::ForEach::Loop", "Fn::GetParam"])
        if name == "Fn::Cidr":
            return {name: [self.s(d - 1), "4", "8"]}
        if name == "Fn::Length":
            return {name: self.l(d - 1)}
        if name == "Fn::Transform":
            return {name: {"Name": "AWS::Include", "Parameters": {"Location": self.s(d - 1)}}}
        return {name: self.s(d - 1) if r.random() < 0.5 else [self.s(d - 1), {"k": self.s(d - 1)}]}

    def any(self, d):
        r = self.r
        k = r.random()
        if d > 0 and r.random() < 0.06:
            return self.unsupported(d)
        if d <= 0 or k < 0.4:
            return self.s(d)
        if k < 0.55:
            return self.l(d)
        if k < 0.62:
            return self.b(d - 1)
        if k < 0.82:
            out = {}
            for key in r.sample(["Name", "Value", "Items", "Nested", "Ref", "Opt", "Action"], r.randint(0, 4)):
                out[key] = {"Ref": "AWS::NoValue"} if r.random() < 0.1 else self.any(d - 1)
            if len(out) == 1 and next(iter(out)) in FUNCS:
                out["Other"] = "x"
            return out
        return [self.any(d - 1) for _ in range(r.randint(0, 3))]


def count_functions(x):
    if isinstance(x, dict):
        n = 1 if len(x) == 1 and next(iter(x)) in FUNCS else 0
        return n + sum(count_functions(v) for v in x.values())
    if isinstance(x, list):
        return sum(count_functions(v) for v in x)
    return 0


def function_names(x, acc=None):
    acc = set() if acc is None else acc
    if isinstance(x, dict):
        if len(x) == 1 and next(iter(x)) in FUNCS:
            acc.add(next(iter(x)))
        for v in x.values():
            function_names(v, acc)
    elif isinstance(x, list):
        for v in x:
            function_names(v, acc)
    return acc


def impl_resolve(expr, params, mappings, conds):
    from pycfmodel.resolver import resolve
    return core.impl_call(lambda: to_wire(resolve(copy.deepcopy(expr), copy.deepcopy(params), copy.deepcopy(mappings), dict(conds))))
