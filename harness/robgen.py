"""Generators shared by C05 and C19: well-typed whole templates over the cross product of constructs
(all 18 modelled resource types built by hand, unmodelled types, every IAM condition operator, parameter kinds,
Fn::If / AWS::NoValue on optional properties, CIDR lists of any width, non-IAM `Action` properties), the
matching context dictionaries for calling conditions, and the structure-aware mutator / random JSON stream.

The well-typed generator stays inside the grammar of theories/Robust/WellFormed.v BY CONSTRUCTION (text-valued
expressions where text is needed, list-valued where lists are, condition functions in conditions); the runner
re-checks every generated template with `valid_template` (op 501), so a slip here is reported, not assumed away.
"""
import base64
import copy
import datetime
import ipaddress
import json
import random

FUNCS = ["Condition", "Fn::And", "Fn::Base64", "Fn::Equals", "Fn::FindInMap", "Fn::GetAtt", "Fn::GetAZs", "Fn::If",
         "Fn::ImportValue", "Fn::Join", "Fn::Not", "Fn::Or", "Fn::Select", "Fn::Split", "Fn::Sub", "Ref"]
NOVALUE = {"Ref": "AWS::NoValue"}

# ------------------------------------------------------------------------------------------------
# IAM condition operators, read from the live class

FAMILY = {
    "String": "string", "Arn": "arn", "Numeric": "numeric", "Date": "date", "Bool": "bool", "Binary": "binary",
    "IpAddress": "ip", "NotIpAddress": "ip", "Null": "null",
}


def operator_table():
    """[(json key, field name, family)] for every operator field of StatementCondition (live source)."""
    from pycfmodel.model.resources.properties.statement_condition import StatementCondition
    out = []
    for f in StatementCondition.model_fields:
        base, prefix, suffix = f, "", ""
        for p in ("ForAllValues", "ForAnyValue"):
            if base.startswith(p):
                prefix, base = p + ":", base[len(p):]
        if base.endswith("IfExists"):
            suffix, base = "IfExists", base[:-len("IfExists")]
        fam = None
        for k, v in FAMILY.items():
            if base.startswith(k):
                fam = v
                break
        if fam is None:
            raise RuntimeError(f"unknown condition operator family: {f}")
        out.append((prefix + base + suffix, f, fam))
    return out


def v4net(rng, prefix):
    """a network of exactly this prefix length (host bits zero)"""
    addr = rng.getrandbits(32) >> (32 - prefix) << (32 - prefix) if prefix else 0
    return f"{ipaddress.IPv4Address(addr)}/{prefix}"


def v6net(rng, prefix):
    addr = rng.getrandbits(128) >> (128 - prefix) << (128 - prefix) if prefix else 0
    return f"{ipaddress.IPv6Address(addr)}/{prefix}"


def cidr(rng, width=None):
    """width None: any prefix /32../4 (v4) or /128../8 (v6)"""
    if rng.random() < 0.75:
        return v4net(rng, rng.choice([32, 31, 28, 24, 20, 16, 12, 8, 4]) if width is None else width)
    return v6net(rng, rng.choice([128, 124, 96, 64, 48, 32, 16, 8]) if width is None else min(128, width * 4))


B64 = ["YWJj", "QmluYXJ5VmFsdWVJbkJhc2U2NA==", "", "AA==", "/+8=", "YQ=="]
DATES = ["2020-01-01T00:00:00Z", "2019-06-30T12:30:00+02:00", "2021-12-31", 1577836800, "1577836800",
         # the "never expires" / "since ever" sentinels written with an offset: valid timestamps whose UTC form is out of range
         # (seeded change C05-r3m2 converted aware timestamps to UTC before rendering them; its detection had depended on one lucky draw)
         "9999-12-31T23:59:59-05:00", "0001-01-01T00:00:00+02:00"]


def cond_value(rng, fam, g, width=None):
    """a policy-side value of the operator family (single or list)"""
    def one():
        if fam == "string":
            return rng.choice(["a*", "prod", "x?z", "arn:aws:s3:::b/*", "", "é中", "${aws:username}"]) if rng.random() < 0.8 else g.s(1)
        if fam == "arn":
            return rng.choice(["arn:aws:iam::123456789012:role/*", "arn:aws:s3:::bucket", "arn:*:*:*:*:*"]) if rng.random() < 0.8 else g.s(1)
        if fam == "numeric":
            return rng.choice([0, 5, -3, "7", 12345678901234567890, "42"])
        if fam == "date":
            return rng.choice(DATES)
        if fam == "bool":
            return rng.choice([True, False, "true", "FALSE", "True"])
        if fam == "binary":
            return rng.choice(B64)
        if fam == "ip":
            return cidr(rng, width)
        if fam == "null":
            return rng.choice([True, False, "true", "false"])
        raise RuntimeError(fam)
    if fam != "null" and rng.random() < 0.35:      # Null takes a single boolean (ResolvableBool), every other family a value or a list
        return [one() for _ in range(rng.randint(1, 3))]
    return one()


def ctx_value(rng, fam):
    """a request-context value of the type the evaluators of that family expect"""
    if fam in ("string", "arn"):
        return rng.choice(["abc", "prod", "xyz", "arn:aws:iam::123456789012:role/r", ""])
    if fam == "numeric":
        return rng.choice([0, 5, 7, -3])
    if fam == "date":
        return datetime.datetime(2020, 1, 1, tzinfo=datetime.timezone.utc)
    if fam == "bool":
        return rng.choice([True, False])
    if fam == "binary":
        return rng.choice([b"abc", b"", b"\x00"])
    if fam == "ip":
        return ipaddress.IPv4Network(v4net(rng, 32))
    return rng.choice(["x", None])


CTX_KEYS = ["aws:k", "aws:SourceIp", "aws:PrincipalOrgID", "s3:prefix", "k2"]


# ------------------------------------------------------------------------------------------------
# well-typed expressions (the grammar of Robust/WellFormed.v)

PLAIN = ["a", "b", "prod", "x-y", "my bucket", "arn:aws:s3:::b", "v1", "", "0", "7", "a,b", "eu-west-1", "é中", "x€y", "True", "FALSE"]


class Params:
    """the declared parameters of a generated template and what the typing rules may assume about them"""

    def __init__(self, rng):
        r = rng
        self.decls = {}
        self.extra = {}
        self.scalar = ["AWS::Region", "AWS::AccountId", "AWS::Partition", "AWS::StackName", "AWS::URLSuffix", "AWS::StackId"]
        self.lists = ["AWS::NotificationARNs"]
        self.unbound = ["Undeclared", "Missing"]

        def add(name, decl, kind, supplied=None):
            self.decls[name] = decl
            if supplied is not None:
                self.extra[name] = supplied
            bound = supplied is not None or "Default" in decl or decl.get("NoEcho")
            if not bound:
                self.unbound.append(name)      # value-less: Ref gives UNDEFINED_PARAM_<name> (text)
            elif kind == "list" and not decl.get("NoEcho"):
                self.lists.append(name)
            else:
                self.scalar.append(name)
        add("Env", {"Type": "String", "Default": r.choice(["prod", "dev", "TRUE"])}, "str", r.choice([None, "prod", "staging"]))
        if r.random() < 0.7:
            add("Name", {"Type": "String"}, "str", r.choice(["n1", "x y", "é"]))          # value comes from the caller
        if r.random() < 0.5:
            add("Unset", {"Type": r.choice(["String", "Number", "AWS::SSM::Parameter::Value<String>"])}, "str")   # value-less
        if r.random() < 0.6:
            add("Num", {"Type": "Number", "Default": r.choice([5, "7", 0])}, "str", r.choice([None, 42, "9"]))
        if r.random() < 0.6:
            add("Flag", {"Type": "String", "Default": r.choice(["true", "false", "True"])}, "str")
        if r.random() < 0.7:
            add("L", {"Type": "CommaDelimitedList", "Default": r.choice(["a,b", "x", "a,,b", "", 7, " a , b "])}, "list", r.choice([None, "p,q", ["l1", "l2"], 8080, 1.5]))
        if r.random() < 0.5:
            add("LN", {"Type": "List<Number>", "Default": r.choice(["1,2,3", "1,2,3", 443, "80, 443", 0])}, "list", r.choice([None, None, 8080, "80,443", [1, 2]]))
        if r.random() < 0.5:
            add("LUnset", {"Type": r.choice(["CommaDelimitedList", "List<Number>"])}, "list")             # value-less list parameter
        if r.random() < 0.4:
            add("LGiven", {"Type": "CommaDelimitedList"}, "list", r.choice(["s1,s2", ["g1"], "one"]))
        if r.random() < 0.5:
            d = {"Type": "String", "NoEcho": r.choice([True, "true"])}
            if r.random() < 0.5:
                d["Default"] = "dflt"
            add("Secret", d, "str", r.choice([None, "s3cr3t"]))
        if r.random() < 0.4:
            add("Ssm", {"Type": "AWS::SSM::Parameter::Value<String>", "Default": "/p/a"}, "str")
        if r.random() < 0.5:
            add("Cidr", {"Type": "String", "Default": "10.0.0.0/8"}, "str")
        if r.random() < 0.4:
            add("CidrList", {"Type": "CommaDelimitedList", "Default": "10.0.0.0/8,192.168.0.0/16"}, "list")
        for d in self.decls.values():
            if r.random() < 0.15:
                d["Description"] = "d"
        if r.random() < 0.3:
            self.extra[r.choice(["NotDeclared", "Z9"])] = "free"
            self.scalar.append([k for k in self.extra if k in ("NotDeclared", "Z9")][0])
        if r.random() < 0.2:
            self.extra["AWS::Region"] = "us-east-1"
        if r.random() < 0.2:
            self.extra["/p/a:1"] = "ssm-val"


class TGen:
    """typed expression generator: s = text, l = list of text, b = condition function, any = any value"""

    def __init__(self, rng, params, mappings, cond_names):
        self.r, self.p, self.maps, self.cnames = rng, params, mappings, cond_names

    def cname(self):
        return self.r.choice(self.cnames + ["UndeclaredCond"]) if self.cnames else "UndeclaredCond"

    def scalar_name(self):
        return self.r.choice(self.p.scalar + self.p.unbound)

    def lit(self):
        r = self.r
        k = r.random()
        if k < 0.75:
            return r.choice(PLAIN)
        if k < 0.9:
            return r.choice(["{{resolve:ssm:/p/a:1}}", "{{resolve:ssm:/p/zz:3}}", "x{{resolve:ssm:/p/a:1}}"])
        return r.choice(["true", "False"])

    def sub_text(self, local=()):
        r = self.r
        out = []
        for _ in range(r.randint(0, 5)):
            k = r.random()
            if k < 0.4:
                out.append("${" + r.choice(list(local) + [self.scalar_name()]) + "}")
            elif k < 0.5:
                out.append("${!" + r.choice(["A", "Env", "x"]) + "}")
            elif k < 0.6:
                out.append(r.choice(["${ A }", "${A.B}", "$A", "${}", "$${Env}", "{A}", "${A", "}", "$"]))
            else:
                out.append(r.choice(PLAIN + ["-", "/", ":"]))
        return "".join(out)

    def find_in_map(self, want):
        """literal-key lookup whose leaf has the wanted kind ('s' text, 'l' list of text); None when there is none"""
        c = [(m, k1, k2) for m, top in self.maps.items() for k1, snd in top.items() for k2, leaf in snd.items()
             if (isinstance(leaf, str) if want == "s" else isinstance(leaf, list))]
        if not c:
            return None
        m, k1, k2 = self.r.choice(c)
        return {"Fn::FindInMap": [m, k1, k2]}

    def s(self, d):
        r = self.r
        if d <= 0 or r.random() < 0.3:
            return self.lit()
        k = r.random()
        if k < 0.22:
            return {"Ref": self.scalar_name()}
        if k < 0.27:
            return {"Fn::ImportValue": r.choice(["exported-name", "Env"])}
        if k < 0.45:
            if r.random() < 0.5:
                return {"Fn::Sub": self.sub_text()}
            local = r.sample(["V", "W", "Env"], r.randint(1, 2))
            return {"Fn::Sub": [self.sub_text(local), {n: self.s(d - 1) for n in local} | ({} if r.random() < 0.7 else {"Spare": "x"})]}
        if k < 0.6:
            return {"Fn::Join": [r.choice(["", "-", ",", "::", " "]), self.l(d - 1)]}
        if k < 0.7:
            f = self.find_in_map("s")
            return f if f is not None else {"Fn::FindInMap": ["NoSuchMap", "k1", self.lit()]} if r.random() < 0.5 else self.lit()
        if k < 0.77:
            return {"Fn::Base64": self.s(d - 1)}
        if k < 0.9:
            return {"Fn::If": [self.cname(), self.s(d - 1), self.s(d - 1)]}
        if k < 0.96:
            return {"Fn::GetAtt": [r.choice(["R1", "Other"]), "Arn"]}
        return {"Fn::GetAZs": r.choice(["", {"Ref": "AWS::Region"}])}

    def l(self, d):
        r = self.r
        k = r.random()
        if d <= 0 or k < 0.5:
            out = []
            for _ in range(r.randint(0, 4)):
                out.append(copy.deepcopy(NOVALUE) if r.random() < 0.1 else self.s(d - 1))
            return out
        if k < 0.7:
            return {"Fn::Split": [r.choice([",", "-", "::", "a"]), self.s(d - 1)]}
        if k < 0.82:
            return {"Ref": r.choice(self.p.lists)}
        if k < 0.9:
            f = self.find_in_map("l")
            return f if f is not None else [self.s(d - 1)]
        return {"Fn::If": [self.cname(), self.l(d - 1), self.l(d - 1)]}

    def sel(self, d):
        """Fn::Select with an in-range literal index over a literal list (value: text)"""
        n = self.r.randint(1, 3)
        items = [self.s(d - 1) if self.r.random() < 0.5 else self.r.choice(PLAIN) for _ in range(n)]
        idx = self.r.randrange(n)
        return {"Fn::Select": [idx if self.r.random() < 0.6 else str(idx), items]}

    def b(self, d):
        r = self.r
        k = r.random()
        if d <= 0 or k < 0.4:
            a = self.s(d - 1) if r.random() < 0.8 else self.l(d - 1)
            return {"Fn::Equals": [a, self.s(d - 1) if r.random() < 0.6 else self.lit()]}
        if k < 0.55:
            return {"Condition": self.cname()}
        if k < 0.7:
            return {"Fn::Not": [self.b(d - 1)]}
        if k < 0.85:
            return {"Fn::And": [self.b(d - 1) for _ in range(r.randint(1, 3))]}
        return {"Fn::Or": [self.b(d - 1) for _ in range(r.randint(1, 3))]}

    def any(self, d, cidr_width=None):
        r = self.r
        k = r.random()
        if d <= 0 or k < 0.3:
            return self.s(d)
        if k < 0.4:
            return self.l(d)
        if k < 0.45:
            return self.sel(d)
        if k < 0.5:
            return r.choice([0, 1, 5, -3, True, False, None, 12345678901234567890, 1.5])
        if k < 0.58:
            return [cidr(r, cidr_width) for _ in range(r.randint(1, 4))]
        if k < 0.62:
            return cidr(r, cidr_width)
        if k < 0.66:
            return r.choice(DATES[:3] + B64[:2])
        if k < 0.85:
            out = {}
            for key in r.sample(["Name", "Value", "Items", "Nested", "Enabled", "Cidrs", "Rules", "Opt", "Config"], r.randint(0, 4)):
                if key == "Opt":
                    out[key] = {"Fn::If": [self.cname(), self.any(d - 1, cidr_width), copy.deepcopy(NOVALUE)]}
                else:
                    out[key] = self.any(d - 1, cidr_width)
            return out
        return [self.any(d - 1, cidr_width) for _ in range(r.randint(0, 3))]


# ------------------------------------------------------------------------------------------------
# IAM policy documents

ACTIONS = ["s3:GetObject", "s3:Get*", "s3:*", "iam:PassRole", "iam:*", "sts:AssumeRole", "ec2:Describe*", "*", "lambda:Invoke?unction",
           "kms:Decrypt", "S3:getobject", "nosuch:Action", "iam:Get*"]


class PolicyGen:
    def __init__(self, rng, g, ops, cidr_width=None):
        self.r, self.g, self.ops, self.width = rng, g, ops, cidr_width
        self.used_ops = []

    def opt(self, v):
        if self.r.random() < 0.12:
            br = [v, copy.deepcopy(NOVALUE)]
            if self.r.random() < 0.5:
                br.reverse()
            return {"Fn::If": [self.g.cname()] + br}
        return v

    def principal(self):
        r, g = self.r, self.g
        k = r.random()
        if k < 0.25:
            return "*"
        if k < 0.4:
            return g.s(1)
        if k < 0.5:
            return [g.s(1), "arn:aws:iam::123456789012:root"]
        fields = r.sample(["AWS", "Service", "Federated", "CanonicalUser"], r.randint(1, 3))
        return {f: (g.s(1) if r.random() < 0.6 else [g.s(1) for _ in range(r.randint(1, 2))]) for f in fields}

    def condition(self, n=None):
        r = self.r
        out = {}
        for key, field, fam in r.sample(self.ops, n if n is not None else r.choice([1, 1, 2, 3])):
            self.used_ops.append(key)
            out[key] = {r.choice(CTX_KEYS): cond_value(r, fam, self.g, self.width) for _ in range(r.choice([1, 1, 2]))}
        return out

    def statement(self, assume=False):
        r, g = self.r, self.g
        st = {"Effect": r.choice(["Allow", "Allow", "Deny", "allow", "DENY"])}
        if r.random() < 0.4:
            st["Sid"] = g.s(1)
        acts = r.choice([r.choice(ACTIONS), r.sample(ACTIONS, r.randint(1, 3))]) if not assume else "sts:AssumeRole"
        st["NotAction" if (r.random() < 0.15 and not assume) else "Action"] = acts
        if not assume:
            res = g.s(1) if r.random() < 0.5 else [g.s(1) for _ in range(r.randint(1, 2))]
            st["NotResource" if r.random() < 0.1 else "Resource"] = res
        if assume or r.random() < 0.5:
            st["NotPrincipal" if r.random() < 0.08 else "Principal"] = self.principal()
        if r.random() < 0.6:
            st["Condition"] = self.condition()
        return st

    def document(self, assume=False):
        sts = [self.statement(assume) for _ in range(self.r.randint(1, 3))]
        d = {"Statement": sts if self.r.random() < 0.8 else sts[0]}
        if self.r.random() < 0.8:
            d["Version"] = self.r.choice(["2012-10-17", "2008-10-17"])
        if self.r.random() < 0.2:
            d["Id"] = self.g.s(1)
        return d

    def policy(self):
        return {"PolicyName": self.g.s(1), "PolicyDocument": self.document()}

    def tags(self):
        return [{"Key": self.g.s(1), "Value": self.g.s(1) if self.r.random() < 0.8 else self.r.choice([True, 5, 1.5])}
                for _ in range(self.r.randint(0, 2))]


# ------------------------------------------------------------------------------------------------
# valid instances of the 18 modelled resource types, by hand

def sg_rule(rng, g, pg, egress, width):
    r = rng
    rule = {"IpProtocol": r.choice(["tcp", "-1", 6, "udp"])}
    if r.random() < 0.7:
        rule["FromPort"] = r.choice([22, "443", 0])
        rule["ToPort"] = r.choice([22, "443", 65535])
    k = r.random()
    if k < 0.5:
        rule["CidrIp"] = v4net(r, width if width is not None else r.choice([32, 24, 16, 8, 4, 0]))
        if "Cidr" in g.p.scalar and r.random() < 0.3:
            rule["CidrIp"] = {"Ref": "Cidr"}
    elif k < 0.75:
        rule["CidrIpv6"] = v6net(r, min(128, width * 4) if width is not None else r.choice([128, 64, 32, 8, 0]))
    else:
        rule["DestinationSecurityGroupId" if egress else "SourceSecurityGroupId"] = g.s(1)
    if r.random() < 0.15:
        # the dual-stack idiom: the alternative sources are ALL written, each behind a condition that leaves exactly one of them after
        # resolution (seeded change C05-r6Dm1: a validator counting the fields that "are not None" at parse time refused the template)
        c = g.cname()
        v4 = v4net(r, width if width is not None else r.choice([32, 24, 16, 0]))
        v6 = v6net(r, min(128, width * 4) if width is not None else r.choice([128, 64, 0]))
        for k2 in ("CidrIp", "CidrIpv6", "DestinationSecurityGroupId", "SourceSecurityGroupId", "SourcePrefixListId", "DestinationPrefixListId"):
            rule.pop(k2, None)
        rule["CidrIp"] = {"Fn::If": [c, v4, copy.deepcopy(NOVALUE)]}
        rule["CidrIpv6"] = {"Fn::If": [c, copy.deepcopy(NOVALUE), v6]}
        if r.random() < 0.3:
            rule["DestinationSecurityGroupId" if egress else "SourceSecurityGroupId"] = {"Fn::If": [c, copy.deepcopy(NOVALUE), copy.deepcopy(NOVALUE)]}
    if r.random() < 0.3:
        rule["Description"] = pg.opt(g.s(1))
    return rule


def generic_props(rng, g):
    """a Generic-typed sub-object of a modelled resource (S3 / ES configuration blocks)"""
    return {k: g.any(1) for k in rng.sample(["Status", "Rules", "Enabled", "Id", "Prefix"], rng.randint(1, 3))}


def modelled_resource(rng, g, pg, typ, width=None):
    r = rng
    P = {}
    if typ == "AWS::EC2::VPCEndpoint":
        P = {"ServiceName": g.s(1), "VpcId": g.s(1)}
        if r.random() < 0.7:
            P["PolicyDocument"] = pg.document()
        if r.random() < 0.4:
            P["PrivateDnsEnabled"] = pg.opt(r.choice([True, "false"]))
        if r.random() < 0.4:
            P["SubnetIds"] = pg.opt(g.l(1))
    elif typ in ("AWS::Elasticsearch::Domain", "AWS::OpenSearchService::Domain"):
        if r.random() < 0.7:
            P["AccessPolicies"] = pg.document()
        if r.random() < 0.5:
            P["DomainName"] = pg.opt(g.s(1))
        if r.random() < 0.5:
            P["EBSOptions"] = generic_props(r, g)
        if r.random() < 0.4:
            P["VPCOptions"] = {"SubnetIds": g.l(1), "Cidrs": [cidr(r, width) for _ in range(r.randint(1, 3))]}
        if r.random() < 0.4:
            P["Tags"] = pg.tags()
    elif typ == "AWS::IAM::Group":
        if r.random() < 0.6:
            P["GroupName"] = pg.opt(g.s(1))
        if r.random() < 0.6:
            P["Policies"] = [pg.policy() for _ in range(r.randint(1, 2))]
        if r.random() < 0.4:
            P["ManagedPolicyArns"] = pg.opt(g.l(1))
    elif typ == "AWS::IAM::ManagedPolicy":
        P = {"PolicyDocument": pg.document()}
        if r.random() < 0.5:
            P["ManagedPolicyName"] = pg.opt(g.s(1))
        if r.random() < 0.4:
            P["Roles"] = pg.opt(g.l(1))
    elif typ == "AWS::IAM::Policy":
        P = {"PolicyName": g.s(1), "PolicyDocument": pg.document()}
        if r.random() < 0.5:
            P["Users"] = pg.opt(g.l(1) if r.random() < 0.6 else g.s(1))
        if r.random() < 0.3:
            P["Roles"] = pg.opt(g.s(1))
    elif typ == "AWS::IAM::Role":
        P = {"AssumeRolePolicyDocument": pg.document(assume=True)}
        if r.random() < 0.5:
            P["RoleName"] = pg.opt(g.s(1))
        if r.random() < 0.5:
            P["Policies"] = [pg.policy()]
        if r.random() < 0.4:
            P["ManagedPolicyArns"] = pg.opt(g.l(1))
        if r.random() < 0.3:
            P["MaxSessionDuration"] = r.choice([3600, "7200"])
        if r.random() < 0.4:
            P["Tags"] = pg.tags()
    elif typ == "AWS::IAM::User":
        if r.random() < 0.5:
            P["UserName"] = pg.opt(g.s(1))
        if r.random() < 0.5:
            P["Policies"] = [pg.policy()]
        if r.random() < 0.4:
            P["LoginProfile"] = {"Password": g.s(1)}
        if r.random() < 0.4:
            P["Groups"] = pg.opt(g.l(1))
    elif typ == "AWS::KMS::Key":
        if r.random() < 0.8:
            P["KeyPolicy"] = pg.document()
        if r.random() < 0.5:
            P["EnableKeyRotation"] = pg.opt(r.choice([True, "true", "FALSE"]))
        if r.random() < 0.4:
            P["PendingWindowInDays"] = r.choice([7, "30"])
        if r.random() < 0.3:
            P["Description"] = pg.opt(g.s(1))
    elif typ == "AWS::RDS::DBSecurityGroup":
        P = {"GroupDescription": g.s(1), "DBSecurityGroupIngress": [
            ({"CIDRIP": v4net(r, width if width is not None else r.choice([32, 16, 8, 4, 0]))} if r.random() < 0.6 else {"EC2SecurityGroupName": g.s(1)})
            for _ in range(r.randint(1, 3))]}
        if r.random() < 0.3:
            P["Tags"] = pg.tags()
    elif typ == "AWS::RDS::DBSecurityGroupIngress":
        P = {"DBSecurityGroupName": g.s(1)}
        if r.random() < 0.7:
            P["CIDRIP"] = v4net(r, width if width is not None else r.choice([32, 16, 8, 4]))
        else:
            P["EC2SecurityGroupId"] = g.s(1)
    elif typ == "AWS::S3::Bucket":
        if r.random() < 0.6:
            P["BucketName"] = pg.opt(g.s(1))
        if r.random() < 0.4:
            P["Tags"] = pg.tags()
        if r.random() < 0.4:
            P["LifecycleConfiguration"] = generic_props(r, g)
        if r.random() < 0.3:
            P["AnalyticsConfigurations"] = [generic_props(r, g)]
        if r.random() < 0.3:
            P["ObjectLockEnabled"] = pg.opt(r.choice([True, "false"]))
    elif typ == "AWS::S3::BucketPolicy":
        P = {"Bucket": g.s(1), "PolicyDocument": pg.document()}
    elif typ == "AWS::EC2::SecurityGroup":
        P = {"GroupDescription": g.s(1)}
        if r.random() < 0.8:
            rules = [sg_rule(r, g, pg, False, width) for _ in range(r.randint(1, 3))]
            if r.random() < 0.2:
                # a MEMBER of the rule list that is a function: an optional rule (seeded change C05-r7Hm2 dropped the per-member
                # Resolvable[...] from the annotation: parse refused this valid template)
                rules.insert(r.randrange(len(rules) + 1), {"Fn::If": [g.cname(), sg_rule(r, g, pg, False, width), copy.deepcopy(NOVALUE)]})
            P["SecurityGroupIngress"] = rules if r.random() < 0.8 else rules[0]
        if r.random() < 0.5:
            P["SecurityGroupEgress"] = [sg_rule(r, g, pg, True, width)]
            if r.random() < 0.2:
                P["SecurityGroupEgress"].append({"Fn::If": [g.cname(), copy.deepcopy(NOVALUE), sg_rule(r, g, pg, True, width)]})
        if r.random() < 0.3:
            P["VpcId"] = pg.opt(g.s(1))
        if r.random() < 0.3:
            P["Tags"] = pg.tags()
    elif typ == "AWS::EC2::SecurityGroupEgress":
        P = sg_rule(r, g, pg, True, width)
        P["GroupId"] = g.s(1)
    elif typ == "AWS::EC2::SecurityGroupIngress":
        P = sg_rule(r, g, pg, False, width)
        P["GroupId"] = g.s(1)
    elif typ == "AWS::SNS::TopicPolicy":
        P = {"PolicyDocument": pg.document(), "Topics": [g.s(1) for _ in range(r.randint(1, 2))]}
    elif typ == "AWS::SQS::QueuePolicy":
        P = {"PolicyDocument": pg.document(), "Queues": g.l(1)}
    else:
        # a type modelled since this file was written (an ordinary upstream change): a valid, literal instance drawn from the live schema
        import schemagen
        res = schemagen.Gen(random.Random(r.random()), fn_rate=0.0, opt_rate=0.5, resolvable=True).resource((), type_string=typ)
        res.pop("Condition", None)
        return res
    if typ in ("AWS::IAM::Group", "AWS::IAM::User") and r.random() < 0.12:
        # the two modelled classes whose Properties section is optional: a bare resource is valid, and every query on it answers
        # (seeded change C05-r7Gm2: policy_documents of a group without Properties raised AttributeError)
        return {"Type": typ}
    return {"Type": typ, "Properties": P}


UNMODELLED = ["AWS::SNS::Topic", "Custom::Thing", "AWS::Foo::Bar", "AWS::Lambda::Permission", "AWS::WAFv2::WebACL",
              "AWS::EC2::PrefixList", "AWS::EC2::NetworkAclEntry", "AWS::Logs::ResourcePolicy", "AWS::ECR::Repository",
              "AWS::Events::Rule", "AWS::CloudFormation::WaitConditionHandle"]


def unmodelled_resource(rng, g, pg, typ, width=None, object_action=False):
    r = rng
    P = {}
    if typ == "AWS::Lambda::Permission":
        P = {"FunctionName": g.s(1), "Action": r.choice(["lambda:InvokeFunction", "lambda:*", "BLOCK"]), "Principal": g.s(1)}
    elif typ == "AWS::WAFv2::WebACL":
        act = {"Block": {}} if object_action else r.choice(["BLOCK", "ALLOW", "COUNT"])
        P = {"DefaultAction": {"Allow": {}}, "Rules": [{"Name": g.s(1), "Priority": 1, "Action": act,
             "Statement": {"IPSetReferenceStatement": {"Arn": g.s(1)}}}], "Scope": "REGIONAL"}
    elif typ == "AWS::EC2::PrefixList":
        P = {"AddressFamily": "IPv4", "MaxEntries": 5, "PrefixListName": g.s(1),
             "Entries": [{"Cidr": cidr(r, width), "Description": g.s(1)} for _ in range(r.randint(1, 3))],
             "Cidrs": [cidr(r, width) for _ in range(r.randint(1, 4))]}
    elif typ == "AWS::EC2::NetworkAclEntry":
        P = {"NetworkAclId": g.s(1), "RuleNumber": 100, "Protocol": -1, "RuleAction": "allow", "CidrBlock": cidr(r, width)}
    elif typ == "AWS::Logs::ResourcePolicy":
        doc = PolicyGen(r, LiteralG(r), pg.ops, width).document()
        P = {"PolicyName": g.s(1), "PolicyDocument": json.dumps(doc)}
    elif typ == "AWS::ECR::Repository":
        P = {"RepositoryName": g.s(1), "RepositoryPolicyText": pg.document()}
    elif typ == "AWS::Events::Rule":
        P = {"ScheduleExpression": "rate(5 minutes)", "State": "ENABLED", "Targets": [{"Arn": g.s(1), "Id": "t1"}]}
    elif typ == "AWS::CloudFormation::WaitConditionHandle":
        P = None
    else:
        keys = r.sample(["TopicName", "Items", "Nested", "Enabled", "Count", "Opt", "Cidrs", "When", "Blob", "Action"], r.randint(0, 5))
        # no NotAction here: in a generic resource its expansion is the whole catalogue, 18 439 strings re-cast one by one
        # (~2.6 s, +230 MB peak) -- a constant of the library that would only make the timings of the main stream noisy;
        # the construct is exercised once, by corpus/C05.json
        for key in keys:
            if key == "Items":
                P[key] = g.l(1)
            elif key == "Nested":
                P[key] = g.any(2, width)
            elif key == "Opt":
                P[key] = {"Fn::If": [g.cname(), g.any(1, width), copy.deepcopy(NOVALUE)]}
            elif key == "Cidrs":
                P[key] = [cidr(r, width) for _ in range(r.randint(1, 5))]
            elif key == "When":
                P[key] = r.choice(DATES[:3])
            elif key == "Blob":
                P[key] = r.choice(B64)
            elif key in ("Action", "NotAction"):
                P[key] = {"Type": "BLOCK"} if object_action else r.choice(["custom:Do", ["a:b", "c:*"], "BLOCK"])
            else:
                P[key] = g.any(1, width)
    res = {"Type": typ}
    if P is not None:
        res["Properties"] = P
    return res


class LiteralG:
    """stand-in for TGen that produces literals only (policies embedded as JSON text cannot hold functions)"""

    def __init__(self, rng):
        self.r = rng

    def s(self, d):
        return self.r.choice(PLAIN)

    def l(self, d):
        return [self.r.choice(PLAIN) for _ in range(self.r.randint(0, 3))]

    def cname(self):
        return "C"


def modelled_types():
    from pycfmodel.model.resources.types import ResourceModels
    return [k.model_fields["Type"].annotation.__args__[0] for k in ResourceModels.__args__[0].__args__]


def gen_template(rng, index=0, width=None, object_action=False, ops=None, types=None):
    """One well-typed template.  `index` walks the modelled types and the operator table so that every type and
    every operator is covered every len(table) consecutive templates."""
    r = rng
    ops = ops or operator_table()
    types = types or modelled_types()
    params = Params(r)
    maps = {}
    for m in r.sample(["RegionMap", "M"], r.randint(0, 2)):
        maps[m] = {}
        for k1 in r.sample(["eu-west-1", "us-east-1", "prod", "k1"], r.randint(1, 3)):
            maps[m][k1] = {}
            for k2 in r.sample(["ami", "cidrs", "name", "s"], r.randint(1, 3)):
                maps[m][k1][k2] = [cidr(r, width) for _ in range(r.randint(1, 3))] if k2 == "cidrs" else r.choice(["ami-123", "x y", "", "k1"])
    cnames = r.sample(["IsProd", "HasL", "C3", "é", "C5"], r.randint(0, 4))
    g = TGen(r, params, maps, cnames)
    conds = {c: g.b(r.choice([0, 1, 1, 2])) for c in cnames}
    pg = PolicyGen(r, g, ops, width)
    resources = {}
    # the indexed part of the cross product: one modelled type and one operator per template, deterministically
    typ = types[index % len(types)]
    res = modelled_resource(r, g, pg, typ, width)
    resources["M1"] = res
    op = ops[index % len(ops)]
    pgi = PolicyGen(r, g, [op], width)
    resources["P1"] = {"Type": "AWS::IAM::Policy", "Properties": {
        "PolicyName": g.s(1), "PolicyDocument": {"Version": "2012-10-17", "Statement": [dict(pg.statement(), Condition=pgi.condition(1))]}}}
    pg.used_ops += pgi.used_ops
    for i in range(r.randint(0, 2)):
        resources[f"M{i + 2}"] = modelled_resource(r, g, pg, r.choice(types), width)
    for i in range(r.randint(1, 2)):
        um = [t for t in UNMODELLED if t not in types] or ["Custom::Thing"]
        resources[f"G{i + 1}"] = unmodelled_resource(r, g, pg, um[(index + i) % len(um)], width, object_action)
    for rid, res in resources.items():
        if r.random() < 0.3:
            res["Condition"] = g.cname()
        if r.random() < 0.12:
            res["DependsOn"] = r.choice(["M1", ["M1", "P1"]])
        if r.random() < 0.1:
            res["Metadata"] = {"Note": g.s(1), "K": [g.s(1)], "Cidrs": [cidr(r, width)]}
        if r.random() < 0.08:
            res["DeletionPolicy"] = r.choice(["Retain", "Delete"])
    t = {"AWSTemplateFormatVersion": "2010-09-09", "Resources": resources}
    if params.decls:
        t["Parameters"] = params.decls
    if maps:
        t["Mappings"] = maps
    if conds:
        t["Conditions"] = conds
    if r.random() < 0.3:
        t["Description"] = "generated"
    if r.random() < 0.2:
        t["Outputs"] = {"O1": {"Value": "x", "Description": "d"}}
    elif r.random() < 0.5:
        # Outputs whose members are expressions, some of which do not denote text (a mapping leaf written as a number or a JSON
        # boolean -- valid CloudFormation -- or an Fn::Select past the end): whatever resolve() does with the section, it does not
        # raise (seeded change C05-r5m2 resolved the section into a field typed Dict[str, Dict[str, Union[str, Dict]]])
        t.setdefault("Mappings", {})["Limits"] = {"prod": {"days": 365, "flag": True, "ratio": 1.5, "names": ["a", "b"]}, "k1": {"days": 7}}
        outs = {}
        for i in range(r.randint(1, 4)):
            v = r.choice([g.s(1), g.s(2), {"Fn::FindInMap": ["Limits", "prod", r.choice(["days", "flag", "ratio", "names"])]},
                          {"Fn::Select": [r.choice([0, 5, "7"]), g.l(1)]}, {"Fn::GetAtt": ["M1", "Arn"]}])
            o = {"Value": v}
            if r.random() < 0.4:
                o["Description"] = "d"
            if r.random() < 0.3:
                o["Export"] = {"Name": r.choice([g.s(1), {"Fn::Sub": "${AWS::StackName}-" + str(i)}, {"Fn::FindInMap": ["Limits", "k1", "days"]}])}
            if cnames and r.random() < 0.3:
                o["Condition"] = r.choice(cnames)
            outs[f"O{i}"] = o
        t["Outputs"] = outs
    if r.random() < 0.15:
        t["Metadata"] = {"AWS::CloudFormation::Interface": {"ParameterGroups": []}}
    return {"template": t, "extra": params.extra, "ops": sorted(set(pg.used_ops)), "types": sorted({x.get("Type") for x in resources.values()})}


def template_tags(x):
    t = x["template"]
    tags = set()
    for res in (t.get("Resources") or {}).values():
        if isinstance(res, dict) and isinstance(res.get("Type"), str):
            tags.add("type:" + res["Type"])
    txt = json.dumps(t, default=str)
    for k, _, fam in operator_table():
        if '"' + k + '"' in txt:
            tags.add("op:" + fam)
    for f in FUNCS:
        if '"' + f + '"' in txt:
            tags.add("fn:" + f.replace("Fn::", "").lower())
    if "AWS::NoValue" in txt:
        tags.add("novalue")
    for d in (t.get("Parameters") or {}).values():
        if isinstance(d, dict):
            if d.get("Type") in ("CommaDelimitedList", "List<Number>"):
                tags.add("param:list")
            if "Default" not in d:
                tags.add("param:valueless")
            if d.get("NoEcho"):
                tags.add("param:noecho")
    return tags


# ------------------------------------------------------------------------------------------------
# arbitrary JSON (C19): scalars, biased keys, mutation of valid templates

KEYS = ["Resources", "Parameters", "Conditions", "Mappings", "Outputs", "Metadata", "Transform", "Rules", "Description",
        "AWSTemplateFormatVersion", "Type", "Properties", "Condition", "DependsOn", "DeletionPolicy", "UpdatePolicy",
        "PolicyDocument", "Statement", "Effect", "Action", "NotAction", "Resource", "NotResource", "Principal", "NotPrincipal",
        "AWS", "Service", "Sid", "Version", "Id", "PolicyName", "Policies", "Tags", "Key", "Value", "CidrIp", "CidrIpv6",
        "IpProtocol", "FromPort", "ToPort", "SecurityGroupIngress", "GroupDescription", "Default", "NoEcho", "AllowedValues",
        "StringEquals", "StringLike", "Bool", "BinaryEquals", "IpAddress", "NotIpAddress", "Null", "DateLessThan", "NumericEquals",
        "ForAllValues:StringLike", "ForAnyValue:ArnLike", "StringEqualsIfExists", "aws:SourceIp", "a", "b", "x:y", "", "é"] + FUNCS
STRINGS = ["", "a", "true", "TRUE", "false", "Allow", "allow", "DENY", "deny", "Other", "AWS::S3::Bucket", "AWS::IAM::Policy",
           "AWS::EC2::SecurityGroup", "Custom::X", "AWS::NoValue", "2012-10-17", "2020-01-01T00:00:00Z", "10.0.0.0/8", "10.0.0.1/8",
           "0.0.0.0/0", "::/0", "2001:db8::/32", "YWJj", "YQ==", "Y", "====", "é中", "s3:*", "*", "{\"a\": 1}", "[1, 2]", "{\"Statement\": []}",
           "0000-01-01", "0000-06-15T12:00:00Z", "9999-12-31T23:59:59-23:59", "0001-01-01T00:00:00+23:59", "10.0.0.0/33", "1e400", "inf",
           "not json {", "String", "Number", "CommaDelimitedList", "1.5", "5", "-1", "1e3", "${A}", "{{resolve:ssm:/p/a:1}}", "\x00", " ", "\n"]
INTS = [0, 1, -1, 5, 22, 65535, 2 ** 31, 2 ** 63, -2 ** 63, 10 ** 30, 1577836800]
FLOATS = [0.0, 1.5, -2.25, 1e300, 1577836800.5]


def scalar(rng):
    k = rng.random()
    if k < 0.08:
        return None
    if k < 0.18:
        return rng.choice([True, False])
    if k < 0.33:
        return rng.choice(INTS)
    if k < 0.4:
        return rng.choice(FLOATS)
    if k < 0.44:
        return rng.choice(["x" * 5000, "a," * 2000, "10.0.0.0/8 " * 300])
    return rng.choice(STRINGS)


def rand_json(rng, depth):
    k = rng.random()
    if depth <= 0 or k < 0.35:
        return scalar(rng)
    if k < 0.6:
        return [rand_json(rng, depth - 1) for _ in range(rng.choice([0, 1, 1, 2, 3, 5]))]
    return {rng.choice(KEYS): rand_json(rng, depth - 1) for _ in range(rng.choice([0, 1, 1, 2, 3, 5]))}


def paths(v, p=()):
    yield p
    if isinstance(v, dict):
        for k, x in v.items():
            yield from paths(x, p + (k,))
    elif isinstance(v, list):
        for i, x in enumerate(v):
            yield from paths(x, p + (i,))


def get_at(v, p):
    for k in p:
        v = v[k]
    return v


def set_at(v, p, new):
    if not p:
        return new
    parent = get_at(v, p[:-1])
    parent[p[-1]] = new
    return v


def depth_of(v):
    if isinstance(v, dict):
        return 1 + max([depth_of(x) for x in v.values()] or [0])
    if isinstance(v, list):
        return 1 + max([depth_of(x) for x in v] or [0])
    return 0


def size_of(v):
    """nodes + characters: the size that time and memory may depend on"""
    if isinstance(v, dict):
        return 1 + sum(len(k) + size_of(x) for k, x in v.items())
    if isinstance(v, list):
        return 1 + sum(size_of(x) for x in v)
    if isinstance(v, str):
        return 1 + len(v)
    if isinstance(v, int) and not isinstance(v, bool):
        return 1 + v.bit_length() // 8
    return 1


MUTATIONS = ["replace-scalar", "replace-json", "swap-container", "delete-key", "rename-key", "type-nonstring", "condition-value",
             "unknown-section", "wide-cidr-invalid", "huge-int", "long-string", "duplicate-into", "wrap", "empty"]


def mutate(rng, t, kind=None):
    """one structure-aware mutation of a template (returns the mutated copy and the mutation's name)"""
    t = copy.deepcopy(t)
    kind = kind or rng.choice(MUTATIONS)
    ps = list(paths(t))
    p = rng.choice(ps)
    node = get_at(t, p)
    if kind == "replace-scalar":
        t = set_at(t, p, scalar(rng))
    elif kind == "replace-json":
        t = set_at(t, p, rand_json(rng, 3))
    elif kind == "swap-container":
        if isinstance(node, dict):
            new = rng.choice([list(node.values()), [[k, v] for k, v in node.items()], list(node)])
        elif isinstance(node, list):
            new = rng.choice([{str(i): v for i, v in enumerate(node)}, {"k": node}, node[0] if node else None])
        else:
            new = rng.choice([[node], {"k": node}, {rng.choice(KEYS): node}])
        t = set_at(t, p, new)
    elif kind == "delete-key":
        cands = [q for q in ps if q and isinstance(get_at(t, q[:-1]), dict)]
        if cands:
            q = rng.choice(cands)
            del get_at(t, q[:-1])[q[-1]]
    elif kind == "rename-key":
        cands = [q for q in ps if q and isinstance(get_at(t, q[:-1]), dict)]
        if cands:
            q = rng.choice(cands)
            parent = get_at(t, q[:-1])
            parent[rng.choice(KEYS)] = parent.pop(q[-1])
    elif kind == "type-nonstring":
        res = t.get("Resources") if isinstance(t, dict) else None
        if isinstance(res, dict) and res:
            rid = rng.choice(list(res))
            if isinstance(res[rid], dict):
                res[rid]["Type"] = rng.choice([["a"], {"a": 1}, 5, True, None, 1.5, [], {}, [["x"]], {"Ref": "T"}])
    elif kind == "condition-value":
        cands = [q for q in ps if len(q) >= 2 and q[-2] == "Condition" and isinstance(get_at(t, q), dict)]
        if cands:
            q = rng.choice(cands)
            blk = get_at(t, q)
            for k in list(blk):
                blk[k] = rng.choice([5, None, [1, 2], {}, {"k": None}, {"k": {"a": 1}}, "x", True, {"k": [[]]}, {"k": 1.5}])
        else:
            t = set_at(t, p, {"Condition": {"BinaryEquals": {"k": rng.choice([5, None, [1], {}])}}})
    elif kind == "unknown-section":
        if isinstance(t, dict):
            t[rng.choice(["Unknown", "Hooks", "resources", "Globals", ""])] = rand_json(rng, 2)
    elif kind == "wide-cidr-invalid":
        wide = rng.choice([["10.0.0.0/8"], ["10.0.0.0/8", "11.0.0.0/8"], ["0.0.0.0/4"], ["::/8"], [["10.0.0.0/6"]], {"a": "10.0.0.0/8"}])
        rule = {"IpProtocol": "tcp", "CidrIp": wide, "FromPort": 22, "ToPort": 22}
        bad = rng.choice([
            {"Type": "AWS::EC2::SecurityGroup", "Properties": {"GroupDescription": "d", "SecurityGroupIngress": [rule]}},
            {"Type": "AWS::EC2::SecurityGroupIngress", "Properties": dict(rule, GroupId="g")},
            {"Type": "AWS::RDS::DBSecurityGroup", "Properties": {"GroupDescription": "d", "DBSecurityGroupIngress": [{"CIDRIP": wide}]}},
            {"Type": "AWS::IAM::Policy", "Properties": {"PolicyName": 5, "PolicyDocument": {"Statement": [
                {"Effect": "Allow", "Action": "s3:*", "Resource": "*", "Condition": {"IpAddress": {"aws:SourceIp": wide}}}]}}},
            {"Type": "AWS::S3::Bucket", "Properties": {"BucketName": ["b"], "Cidrs": wide}},
        ])
        if isinstance(t, dict) and isinstance(t.get("Resources"), dict):
            t["Resources"]["Bad"] = bad
        else:
            t = {"Resources": {"Bad": bad}}
    elif kind == "huge-int":
        t = set_at(t, p, rng.choice([10 ** 100, -10 ** 100, 2 ** 4000, 10 ** 4000]))
    elif kind == "long-string":
        t = set_at(t, p, rng.choice(["x" * 100000, "10.0.0.0/8," * 5000, "[" * 5000, "{\"a\":" * 3000, "é" * 50000]))
    elif kind == "duplicate-into":
        q = rng.choice(ps)
        t = set_at(t, p, copy.deepcopy(get_at(t, q))) if len(json.dumps(get_at(t, q), default=str)) < 20000 else t
    elif kind == "wrap":
        t = set_at(t, p, rng.choice([{"Fn::If": ["C", node, {"Ref": "AWS::NoValue"}]}, {"Ref": node}, {"Fn::Sub": node}, {"Fn::Join": node}, [node, node]]))
    elif kind == "empty":
        t = set_at(t, p, rng.choice([{}, [], "", None]))
    return t, kind


# ------------------------------------------------------------------------------------------------
# the full pipeline (runs inside the sandbox worker)

def contexts_for(template):
    """request contexts for calling the statement conditions of a template: every condition key that occurs gets a value
    of the type its operator family expects (fixed values: the case input stays plain JSON)."""
    fam_of = {k: fam for k, _, fam in operator_table()}
    fixed = {"string": "prod", "arn": "arn:aws:iam::123456789012:role/r", "numeric": 5,
             "date": datetime.datetime(2020, 1, 1, tzinfo=datetime.timezone.utc), "bool": True, "binary": b"abc",
             "ip": ipaddress.IPv4Network("10.1.2.3/32"), "null": "x"}
    ctx, ctx_lists = {}, {}

    def walk(v):
        if isinstance(v, dict):
            for k, x in v.items():
                if k == "Condition" and isinstance(x, dict):
                    for op, blk in x.items():
                        if op in fam_of and isinstance(blk, dict):
                            for ck in blk:
                                ctx.setdefault(ck, fixed[fam_of[op]])
                                ctx_lists.setdefault(ck, [fixed[fam_of[op]]])
                walk(x)
        elif isinstance(v, list):
            for x in v:
                walk(x)
        elif isinstance(v, str) and v[:1] in "{[":
            try:
                walk(json.loads(v))
            except Exception:
                pass
    walk(template)
    return [ctx, ctx_lists, {}]


MAX_LITERAL_ACTIONS = 40


def run_queries(model, ctxs, action_lists=True):
    """action_lists=False (the EXPANDED model): get_allowed_actions / get_iam_actions are called only on documents whose
    statements hold at most MAX_LITERAL_ACTIONS literal actions -- each literal action costs one sweep of the
    18 439-entry catalogue, so a document expanded from "*" costs 18 439^2 regex matches (minutes): a constant of
    the library, independent of the template, but not something a check can afford."""
    import re
    from pycfmodel.utils import regex_from_cf_string
    n = {"resources": 0, "documents": 0, "conditions": 0, "True": 0, "False": 0, "None": 0, "actions": 0, "principals": 0}
    pats = [regex_from_cf_string("arn:aws:iam::*"), re.compile(".*"), regex_from_cf_string("*")]
    for rid, res in model.Resources.items():
        n["resources"] += 1
        docs = res.policy_documents
        conds = res.all_statement_conditions
        for c in conds:
            n["conditions"] += 1
            for ctx in ctxs:
                n[str(c(dict(ctx)))] += 1
        for d in docs:
            n["documents"] += 1
            pd = d.policy_document
            literal = sum(len(st.get_action_list()) for st in pd.statement_as_list())
            if action_lists or literal <= MAX_LITERAL_ACTIONS:
                n["actions"] += len(pd.get_allowed_actions())
                n["actions"] += len(pd.get_iam_actions())
            else:
                n["skipped_action_lists"] = n.get("skipped_action_lists", 0) + 1
            for p in pats:
                n["principals"] += len(pd.allowed_principals_with(p))
            n["principals"] += len(pd.non_whitelisted_allowed_principals(["*", "arn:aws:iam::123456789012:root"]))
            n["principals"] += len(pd.non_whitelisted_allowed_principals([]))
            pd.allowed_actions_with(re.compile("^iam:", re.I))
            pd.statements_with(pats[1])
            for st in pd.statement_as_list():
                st.get_principal_list()
                st.get_action_list()
                st.get_resource_list()
    return n


def pipeline(x):
    """parse -> resolve(extra) -> expand_actions() -> every policy query, on the resolved and on the expanded model"""
    import time

    import pycfmodel
    t0 = time.perf_counter()
    m = pycfmodel.parse(copy.deepcopy(x["template"]))
    t1 = time.perf_counter()
    r = m.resolve(copy.deepcopy(x["extra"]))
    t2 = time.perf_counter()
    e = r.expand_actions()
    t3 = time.perf_counter()
    ctxs = contexts_for(x["template"])
    q1 = run_queries(r, ctxs)
    q2 = run_queries(e, ctxs, action_lists=False)
    t4 = time.perf_counter()
    # the same stages asked AGAIN of the same objects (a caller that keeps a model around): the statement has no "first call only" clause
    e_again = r.expand_actions()
    r_again = m.resolve(copy.deepcopy(x["extra"]))
    e_third = r_again.expand_actions()
    q3 = run_queries(r, ctxs)
    t5 = time.perf_counter()
    first, again = (t3 - t1) + (t4 - t3) / 2, t5 - t4
    if again > 20 * first + 2.0:
        raise TimeoutError(f"asking the same objects again took {again:.2f} s where the first round took {first:.2f} s")
    del e_again, e_third
    return {"stages_ms": [round((b - a) * 1000, 2) for a, b in ((t0, t1), (t1, t2), (t2, t3), (t3, t4), (t4, t5))], "resolved": q1, "expanded": q2,
            "again_same": q3 == q1}
