"""Wire format shared with theories/Base/Wire.v, and Python <-> Coq-term printing of model values.

Python representation of a model `value`:
  None, bool, int, str, list, dict (insertion ordered), bytes, Typed(kind, text)
"""
from dataclasses import dataclass

KINDS = ["float", "date", "datetime", "net4", "net6"]
COQ_KINDS = ["KFloat", "KDate", "KDatetime", "KNet4", "KNet6"]
LIMB = 1 << 30


@dataclass(frozen=True)
class Typed:
    kind: str
    text: str


def enc(v, out=None):
    top = out is None
    if top:
        out = []
    if v is None:
        out.append(0)
    elif v is True or v is False:
        out += [1, 1 if v else 0]
    elif isinstance(v, int):
        m = abs(v)
        limbs = []
        while m:
            limbs.append(m % LIMB)
            m //= LIMB
        out += [2, 1 if v < 0 else 0, len(limbs)] + limbs
    elif isinstance(v, str):
        out += [3, len(v)] + [ord(c) for c in v]
    elif isinstance(v, Typed):
        out += [4, KINDS.index(v.kind), len(v.text)] + [ord(c) for c in v.text]
    elif isinstance(v, (bytes, bytearray)):
        out += [5, len(v)] + list(v)
    elif isinstance(v, (list, tuple)):
        out += [6, len(v)]
        for x in v:
            enc(x, out)
    elif isinstance(v, dict):
        out += [7, len(v)]
        for k, x in v.items():
            if not isinstance(k, str):
                raise TypeError(f"non-string key {k!r}")
            out += [len(k)] + [ord(c) for c in k]
            enc(x, out)
    else:
        raise TypeError(f"cannot encode {type(v)}")
    return out


def dec(toks, i=0):
    t = toks[i]
    if t == 0:
        return None, i + 1
    if t == 1:
        return toks[i + 1] != 0, i + 2
    if t == 2:
        sg, k = toks[i + 1], toks[i + 2]
        m = 0
        for j in reversed(range(k)):
            m = m * LIMB + toks[i + 3 + j]
        return (-m if sg else m), i + 3 + k
    if t == 3:
        n = toks[i + 1]
        return "".join(map(chr, toks[i + 2:i + 2 + n])), i + 2 + n
    if t == 4:
        k, n = toks[i + 1], toks[i + 2]
        return Typed(KINDS[k], "".join(map(chr, toks[i + 3:i + 3 + n]))), i + 3 + n
    if t == 5:
        n = toks[i + 1]
        return bytes(toks[i + 2:i + 2 + n]), i + 2 + n
    if t == 6:
        n = toks[i + 1]
        i += 2
        out = []
        for _ in range(n):
            x, i = dec(toks, i)
            out.append(x)
        return out, i
    if t == 7:
        n = toks[i + 1]
        i += 2
        out = {}
        for _ in range(n):
            kl = toks[i]
            k = "".join(map(chr, toks[i + 1:i + 1 + kl]))
            x, i = dec(toks, i + 1 + kl)
            out[k] = x
        return out, i
    raise ValueError(f"bad tag {t}")


def coq_str(s):
    return "[" + ";".join(str(ord(c)) for c in s) + "]"


def coq_value(v):
    """Coq term (in N_scope, list notations) of a model value."""
    if v is None:
        return "VNull"
    if v is True:
        return "(VBool true)"
    if v is False:
        return "(VBool false)"
    if isinstance(v, int):
        return f"(VInt ({v})%Z)"
    if isinstance(v, str):
        return f"(VStr {coq_str(v)})"
    if isinstance(v, Typed):
        return f"(VTyped {COQ_KINDS[KINDS.index(v.kind)]} {coq_str(v.text)})"
    if isinstance(v, (bytes, bytearray)):
        return "(VBytes [" + ";".join(str(b) for b in v) + "])"
    if isinstance(v, (list, tuple)):
        return "(VList [" + ";".join(coq_value(x) for x in v) + "])"
    if isinstance(v, dict):
        return "(VDict [" + ";".join(f"({coq_str(k)},{coq_value(x)})" for k, x in v.items()) + "])"
    raise TypeError(type(v))


def jsonable(v):
    """For evidence / replay files."""
    if isinstance(v, Typed):
        return {"__typed__": v.kind, "text": v.text}
    if isinstance(v, (bytes, bytearray)):
        return {"__bytes__": list(v)}
    if isinstance(v, (list, tuple)):
        return [jsonable(x) for x in v]
    if isinstance(v, dict):
        return {k: jsonable(x) for k, x in v.items()}
    return v


def unjson(v):
    if isinstance(v, dict):
        if "__typed__" in v:
            return Typed(v["__typed__"], v["text"])
        if "__bytes__" in v:
            return bytes(v["__bytes__"])
        return {k: unjson(x) for k, x in v.items()}
    if isinstance(v, list):
        return [unjson(x) for x in v]
    return v
