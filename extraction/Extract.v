From Coq Require Import ExtrOcamlBasic.
From PV Require Import Runner.
Extraction Language OCaml.
Set Extraction Output Directory ".".
Extraction "runner_core.ml" Runner.init Runner.step.
