From Coq Require Import ExtrOcamlBasic.
From PV Require Import Run.RState Runner.
Extraction Language OCaml.
Set Extraction Output Directory ".".
Extraction "runner_core.ml" RState.init Runner.step.
