(* Byte I/O only: each stdin line is a list of naturals -> Runner.step -> line of naturals. *)
open Runner_core
let rec pos_of_int i = if i = 1 then XH else if i land 1 = 0 then XO (pos_of_int (i lsr 1)) else XI (pos_of_int (i lsr 1))
let n_of_int i = if i = 0 then N0 else Npos (pos_of_int i)
let rec int_of_pos = function XH -> 1 | XO p -> 2 * int_of_pos p | XI p -> 2 * int_of_pos p + 1
let int_of_n = function N0 -> 0 | Npos p -> int_of_pos p
let parse line =
  let n = String.length line in
  let rec go i acc cur have =
    if i = n then List.rev (if have then n_of_int cur :: acc else acc)
    else let c = line.[i] in
      if c >= '0' && c <= '9' then go (i + 1) acc (cur * 10 + Char.code c - 48) true
      else go (i + 1) (if have then n_of_int cur :: acc else acc) 0 false in
  go 0 [] 0 false
let () =
  let st = ref init in
  let buf = Buffer.create 65536 in
  (try
     while true do
       let line = input_line stdin in
       let (st', out) = step !st (parse line) in
       st := st';
       Buffer.clear buf;
       List.iter (fun x -> Buffer.add_string buf (string_of_int (int_of_n x)); Buffer.add_char buf ' ') out;
       Buffer.add_char buf '\n';
       print_string (Buffer.contents buf); flush stdout
     done
   with End_of_file -> ());
  flush stdout
